#!/bin/bash
# usage: tools/try_all.sh [scale] [filter]  - runs every seeded mutant through the check of the property it breaks
scale=${1:-0.5}; filter=${2:-}
for d in /verif/seeded/*${filter}*/; do
  id=$(basename $d); prop=$(python3 -c "import json;print(json.load(open('$d/meta.json'))['breaks_property'])")
  out=$(${VERIF_DIR:-/verif}/tools/try_mutant.sh $d/patch.diff $prop $scale 2>&1); rc=$?
  rules=$(echo "$out" | grep -o "rule=[A-Za-z0-9]*" | sort | uniq -c | tr '\n' ' ')
  harness=$(echo "$out" | grep -c HARNESS)
  echo "$id $prop rc=$rc harness_lines=$harness $rules"
done
