#!/bin/bash
# usage: tools/try_all.sh [scale] [filter] [slot] - runs every seeded change through the check of the property it breaks
scale=${1:-0.5}; filter=${2:-}; slot=${3:-0}
V=${VERIF_DIR:-/verif}
for d in /verif/seeded/*${filter}*/; do
  id=$(basename $d); prop=$(python3 -c "import json;print(json.load(open('$d/meta.json'))['breaks_property'])")
  out=$($V/tools/try_mutant.sh $d/patch.diff $prop $scale $slot 2>&1); rc=$?
  rules=$(echo "$out" | grep -o "rule=[A-Za-z0-9]*" | sort | uniq -c | tr '\n' ' ')
  harness=$(echo "$out" | grep -c HARNESS)
  echo "$id $prop rc=$rc harness_lines=$harness $rules"
done
