#!/bin/bash
# usage: tools/try_mutant.sh <patch.diff> <prop> [scale]   applies the patch to /repo's working tree, runs the quick
# check, prints the verdict, and always restores /repo afterwards.
patch=$1; prop=$2; scale=${3:-1.0}
cd /repo || exit 2
if [ -n "$(git status --porcelain --untracked-files=no)" ]; then echo "refusing: /repo has uncommitted changes"; exit 2; fi
git apply "$patch" || { echo "patch does not apply"; exit 2; }
cd ${VERIF_DIR:-/verif}
out=$(VERIF_SCALE=$scale ./check $prop quick 2>&1); rc=$?
git -C /repo checkout -- . 
echo "== $patch on $prop: rc=$rc"
echo "$out" | grep -E "^(VIOLATION|KNOWN|HARNESS|REPRODUCED|summary|OK|pass|determinism)" | head -14
exit $rc
