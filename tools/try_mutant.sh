#!/bin/bash
# usage: tools/try_mutant.sh <patch.diff> <prop> [scale] [slot]
# Applies the patch in a scratch worktree of /repo (never in /repo itself), runs the quick check of the property
# against that worktree (VERIF_REPO), prints the verdict and removes the worktree. Several slots may run in parallel.
patch=$(readlink -f "$1"); prop=$2; scale=${3:-1.0}; slot=${4:-0}
V=${VERIF_DIR:-/verif}
wt=/tmp/mutwt/slot$slot
mkdir -p /tmp/mutwt
git -C /repo worktree remove --force $wt >/dev/null 2>&1; rm -rf $wt
git -C /repo worktree add -q --detach $wt HEAD || exit 2
git -C $wt apply "$patch" || { echo "patch does not apply"; git -C /repo worktree remove --force $wt; exit 2; }
cd $V
out=$(VERIF_REPO=$wt VERIF_SCALE=$scale ./check $prop quick 2>&1); rc=$?
git -C /repo worktree remove --force $wt >/dev/null 2>&1; git -C /repo worktree prune
echo "== $patch on $prop: rc=$rc"
echo "$out" | grep -E "^(VIOLATION|KNOWN|HARNESS|REPRODUCED|summary|OK|pass|determinism)" | head -14
exit $rc
