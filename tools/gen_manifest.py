#!/usr/bin/env python3
"""Writes /verif/MANIFEST.json. Single source of truth for claimed checks and N/A reasons."""
import json, subprocess, sys
NA = {
 "C01": "pure function of (definition, argv): the anchored tokeniser/combinator code touches no seam (no env, stream, exit, clock, thread or shared state); deciding it means enumerating inputs against a reference grammar, which is not simulation (DESIGN.md section 2)",
 "C02": "pure function of the argv bytes (arg.rs split_os_argument, args.rs State::construct); nothing to schedule, fault or replay (DESIGN.md section 2)",
 "C03": "pure metamorphic relation over permutations of one argv; no ambient state, stream, history or fault is involved (DESIGN.md section 2)",
 "C05": "invariant of the per-run consumption ledger driven only by argv; a monitor plus generated inputs is property testing, not simulation (DESIGN.md section 2)",
 "C06": "catch/can_catch decision is a pure function of the command line; its one ambient clause (environment variable unset) is exercised by the C18 check, rules R3-R5 (DESIGN.md section 2)",
 "C07": "winner selection compares two forks of one deterministic per-run state; pure function of (definition, argv) (DESIGN.md section 2)",
 "C08": "scope arithmetic on argv indices; pure function of (definition, argv) (DESIGN.md section 2)",
 "C09": "tokeniser switch and strictness tag; pure function of (definition, argv) (DESIGN.md section 2)",
 "C10": "decided inside run_inner from argv alone; its process-level half (help never runs the program body) is the body-reached-iff-value invariant checked by the C11 check (DESIGN.md section 2)",
 "C12": "help text is a pure function of the metadata tree; the only ambient input to help, the env suffix, is looked at by the C18 check rule R14 in its wording-free parts (DESIGN.md section 7)",
 "C13": "width is a caller argument, bpaf never queries a terminal; rendering is a pure string function (DESIGN.md section 2)",
 "C14": "candidate set is a pure function of (definition, partial argv); no shell, stream or history in the loop (DESIGN.md section 2)",
 "C15": "string-to-string renderers; a single request/response with no concurrency, loss, reordering or fault to simulate (DESIGN.md section 2)",
 "C16": "render_markdown/html/manpage are pure string builders over the metadata tree (DESIGN.md section 2)",
 "C17": "compile-time macro expansion followed by the same pure parser; nothing exists at run time for a simulator to control (DESIGN.md section 2)",
 "C19": "window arithmetic over the per-run ledger; pure function of (definition, argv) (DESIGN.md section 2)",
 "C20": "the varying quantity (cargo features) is fixed by the compiler before the program exists; deciding it is a differential run of two builds, with no run-time nondeterminism, fault or history for a simulator to own (DESIGN.md section 2)",
}
CHECKS = json.load(open('/verif/tools/checks.json'))
hooks_commits = subprocess.run(['git','-C','/repo','log','--format=%H %s'],capture_output=True,text=True).stdout.splitlines()
src = [l.split()[0] for l in hooks_commits if 'verif hooks' in l]
m = {
 "version": 1,
 "setup_cmd": "cd /verif && ./check --setup",
 "hooks": {
   "guard": "bpaf_verif",
   "enable": "RUSTFLAGS='--cfg bpaf_verif' when building /verif/sim (its own target dir); off in every other build. Hooks: /repo/src/verif.rs plus cfg-gated one-liners (use crate::verif::std; crate::verif::tick())",
   "baseline_off_cmd": "/verif/tools/baseline_off.sh",
   "source_commits": src,
   "add_only": True,
 },
 "engines": [
   {"name": "sim", "path": "/verif/sim", "serves_properties": [c["property_id"] for c in CHECKS],
    "kind_free_text": "deterministic simulation of one process that links bpaf: simulated env store, argv, stdout/stderr with write faults, intercepted process::exit, callback fault plan, step budget; seeded histories of operations on long-lived parsers; oracles evaluated per operation; minimised replay files"},
   {"name": "realproc", "path": "/verif/realproc", "serves_properties": ["C11"] if any(c["property_id"]=="C11" for c in CHECKS) else [],
    "kind_free_text": "unhooked child executable spawned with controlled argv/arg0/env/fds; validates the simulated process boundary against real processes"},
 ],
 "checks": CHECKS,
 "not_applicable": [{"property_id": k, "reason": v} for k, v in sorted(NA.items()) if k not in {c["property_id"] for c in CHECKS}],
 "notes": "Technique family: deterministic simulation with fault injection. bpaf has no threads, clocks, files or shared state; the simulator owns the only ambient dependences it has (environment, argv, two streams, exit, user callbacks, run histories). See DESIGN.md.",
}
claimed={c["property_id"] for c in CHECKS}
for pid in ("C04","C11","C18"):
    if pid not in claimed:
        m["not_applicable"].append({"property_id": pid, "reason": "check under construction in this revision; see DESIGN.md section 7 for the planned simulation"})
m["not_applicable"].sort(key=lambda x:x["property_id"])
json.dump(m, open('/verif/MANIFEST.json','w'), indent=1)
print("checks:", sorted(claimed), "n/a:", len(m["not_applicable"]))
