#!/bin/bash
# Runs the repository's pinned test-suite with the bpaf_verif guard OFF and compares the set of
# passing tests with /root/.vp/BASELINE.json (stable_pass). Exit 0 iff every stable test passes.
# The docs2 tests regenerate src/docs2/named_arg_derive.md from $USER; it is restored afterwards.
set -u
export CARGO_NET_OFFLINE=true
unset RUSTFLAGS
cd /repo || exit 2
TD=${BASELINE_TARGET_DIR:-/repo/target}
cargo nextest run --workspace --no-fail-fast --tool-config-file vb:/verif/tools/nextest.toml \
   --profile vb --test-threads 8 --offline --target-dir "$TD" >/tmp/.baseline_off.log 2>&1
git -C /repo checkout -- src/docs2/named_arg_derive.md 2>/dev/null
J="$TD/nextest/vb/junit.xml"
python3 - "$J" <<'PY'
import json,sys,xml.etree.ElementTree as ET
passed=set(); failed=set()
for tc in ET.parse(sys.argv[1]).getroot().iter('testcase'):
    name=tc.get('classname')+'::'+tc.get('name')
    bad=any(c.tag in('failure','error') for c in tc)
    (failed if bad else passed).add(name)
try:
    base=set(json.load(open('/root/.vp/BASELINE.json'))['stable_pass'])
except Exception as e:
    print('no baseline file:',e); base=None
print('passed',len(passed),'failed',len(failed))
if base is not None:
    missing=sorted(base-passed)
    print('baseline stable_pass',len(base),'missing',len(missing))
    for m in missing[:20]: print('  MISSING',m)
    sys.exit(1 if missing else 0)
PY
