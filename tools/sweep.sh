#!/bin/bash
# usage: tools/sweep.sh <prop> <tier> <seed>...   runs ./check for several seeds, prints one line per seed
prop=$1; tier=$2; shift 2
for seed in "$@"; do
  out=$(VERIF_SEED=$seed ./check $prop $tier 2>&1); rc=$?
  echo "seed=$seed rc=$rc $(echo "$out" | grep -E '^summary' )"
  if [ $rc -ne 0 ]; then echo "$out" | tail -40; fi
done
