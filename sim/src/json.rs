//! Minimal JSON value, printer and parser (no external crates available offline is not the
//! reason - keeping the harness dependency-free keeps its builds trivial and deterministic).
use std::collections::BTreeMap;
use std::fmt::Write;

#[derive(Clone, Debug, PartialEq)]
pub enum J {
    Null,
    Bool(bool),
    Int(i64),
    Float(f64),
    Str(String),
    Arr(Vec<J>),
    Obj(Vec<(String, J)>),
}

impl J {
    pub fn obj(kv: Vec<(&str, J)>) -> J {
        J::Obj(kv.into_iter().map(|(k, v)| (k.to_string(), v)).collect())
    }
    pub fn s(s: impl Into<String>) -> J {
        J::Str(s.into())
    }
    pub fn arr<T>(xs: impl IntoIterator<Item = T>, f: impl Fn(T) -> J) -> J {
        J::Arr(xs.into_iter().map(f).collect())
    }
    pub fn get(&self, key: &str) -> Option<&J> {
        match self {
            J::Obj(kv) => kv.iter().find(|(k, _)| k == key).map(|(_, v)| v),
            _ => None,
        }
    }
    pub fn req(&self, key: &str) -> Result<&J, String> {
        self.get(key).ok_or_else(|| format!("missing key {:?}", key))
    }
    pub fn as_str(&self) -> Result<&str, String> {
        match self {
            J::Str(s) => Ok(s),
            _ => Err(format!("expected string, got {:?}", self)),
        }
    }
    pub fn as_i64(&self) -> Result<i64, String> {
        match self {
            J::Int(i) => Ok(*i),
            _ => Err(format!("expected int, got {:?}", self)),
        }
    }
    pub fn as_u64(&self) -> Result<u64, String> {
        match self {
            J::Int(i) if *i >= 0 => Ok(*i as u64),
            J::Str(s) => s.parse::<u64>().map_err(|e| e.to_string()),
            _ => Err(format!("expected unsigned, got {:?}", self)),
        }
    }
    pub fn as_bool(&self) -> Result<bool, String> {
        match self {
            J::Bool(b) => Ok(*b),
            _ => Err(format!("expected bool, got {:?}", self)),
        }
    }
    pub fn as_arr(&self) -> Result<&[J], String> {
        match self {
            J::Arr(a) => Ok(a),
            _ => Err(format!("expected array, got {:?}", self)),
        }
    }
    pub fn is_null(&self) -> bool {
        matches!(self, J::Null)
    }

    pub fn to_string(&self) -> String {
        let mut s = String::new();
        self.write(&mut s, None, 0);
        s
    }
    pub fn pretty(&self) -> String {
        let mut s = String::new();
        self.write(&mut s, Some(1), 0);
        s.push('\n');
        s
    }

    fn write(&self, out: &mut String, indent: Option<usize>, level: usize) {
        match self {
            J::Null => out.push_str("null"),
            J::Bool(b) => out.push_str(if *b { "true" } else { "false" }),
            J::Int(i) => {
                let _ = write!(out, "{}", i);
            }
            J::Float(f) => {
                if f.is_finite() {
                    let _ = write!(out, "{:.3}", f);
                } else {
                    out.push_str("null");
                }
            }
            J::Str(s) => write_str(out, s),
            J::Arr(xs) => {
                if xs.is_empty() {
                    out.push_str("[]");
                    return;
                }
                // short scalar arrays stay on one line
                let scalar = xs.iter().all(|x| !matches!(x, J::Arr(_) | J::Obj(_)));
                out.push('[');
                for (i, x) in xs.iter().enumerate() {
                    if i > 0 {
                        out.push(',');
                        if scalar && indent.is_some() {
                            out.push(' ');
                        }
                    }
                    if !scalar {
                        nl(out, indent, level + 1);
                    }
                    x.write(out, indent, level + 1);
                }
                if !scalar {
                    nl(out, indent, level);
                }
                out.push(']');
            }
            J::Obj(kv) => {
                if kv.is_empty() {
                    out.push_str("{}");
                    return;
                }
                out.push('{');
                for (i, (k, v)) in kv.iter().enumerate() {
                    if i > 0 {
                        out.push(',');
                    }
                    nl(out, indent, level + 1);
                    write_str(out, k);
                    out.push(':');
                    if indent.is_some() {
                        out.push(' ');
                    }
                    v.write(out, indent, level + 1);
                }
                nl(out, indent, level);
                out.push('}');
            }
        }
    }
}

fn nl(out: &mut String, indent: Option<usize>, level: usize) {
    if let Some(w) = indent {
        out.push('\n');
        for _ in 0..(w * level) {
            out.push(' ');
        }
    }
}

fn write_str(out: &mut String, s: &str) {
    out.push('"');
    for c in s.chars() {
        match c {
            '"' => out.push_str("\\\""),
            '\\' => out.push_str("\\\\"),
            '\n' => out.push_str("\\n"),
            '\r' => out.push_str("\\r"),
            '\t' => out.push_str("\\t"),
            c if (c as u32) < 0x20 || c == '\u{7f}' => {
                let _ = write!(out, "\\u{:04x}", c as u32);
            }
            c => out.push(c),
        }
    }
    out.push('"');
}

pub fn parse(text: &str) -> Result<J, String> {
    let mut p = P {
        b: text.as_bytes(),
        i: 0,
    };
    p.ws();
    let v = p.value()?;
    p.ws();
    if p.i != p.b.len() {
        return Err(format!("trailing data at {}", p.i));
    }
    Ok(v)
}

struct P<'a> {
    b: &'a [u8],
    i: usize,
}

impl P<'_> {
    fn ws(&mut self) {
        while self.i < self.b.len() && matches!(self.b[self.i], b' ' | b'\n' | b'\r' | b'\t') {
            self.i += 1;
        }
    }
    fn eat(&mut self, c: u8) -> Result<(), String> {
        if self.i < self.b.len() && self.b[self.i] == c {
            self.i += 1;
            Ok(())
        } else {
            Err(format!("expected {:?} at {}", c as char, self.i))
        }
    }
    fn value(&mut self) -> Result<J, String> {
        self.ws();
        if self.i >= self.b.len() {
            return Err("unexpected end".into());
        }
        match self.b[self.i] {
            b'n' => self.lit("null", J::Null),
            b't' => self.lit("true", J::Bool(true)),
            b'f' => self.lit("false", J::Bool(false)),
            b'"' => Ok(J::Str(self.string()?)),
            b'[' => {
                self.i += 1;
                let mut xs = Vec::new();
                self.ws();
                if self.i < self.b.len() && self.b[self.i] == b']' {
                    self.i += 1;
                    return Ok(J::Arr(xs));
                }
                loop {
                    xs.push(self.value()?);
                    self.ws();
                    if self.i < self.b.len() && self.b[self.i] == b',' {
                        self.i += 1;
                        continue;
                    }
                    self.eat(b']')?;
                    return Ok(J::Arr(xs));
                }
            }
            b'{' => {
                self.i += 1;
                let mut kv = Vec::new();
                self.ws();
                if self.i < self.b.len() && self.b[self.i] == b'}' {
                    self.i += 1;
                    return Ok(J::Obj(kv));
                }
                loop {
                    self.ws();
                    let k = self.string()?;
                    self.ws();
                    self.eat(b':')?;
                    let v = self.value()?;
                    kv.push((k, v));
                    self.ws();
                    if self.i < self.b.len() && self.b[self.i] == b',' {
                        self.i += 1;
                        continue;
                    }
                    self.eat(b'}')?;
                    return Ok(J::Obj(kv));
                }
            }
            _ => self.number(),
        }
    }
    fn lit(&mut self, word: &str, v: J) -> Result<J, String> {
        if self.b[self.i..].starts_with(word.as_bytes()) {
            self.i += word.len();
            Ok(v)
        } else {
            Err(format!("bad literal at {}", self.i))
        }
    }
    fn number(&mut self) -> Result<J, String> {
        let start = self.i;
        let mut float = false;
        while self.i < self.b.len() {
            match self.b[self.i] {
                b'0'..=b'9' | b'-' | b'+' => {}
                b'.' | b'e' | b'E' => float = true,
                _ => break,
            }
            self.i += 1;
        }
        let s = std::str::from_utf8(&self.b[start..self.i]).map_err(|e| e.to_string())?;
        if float {
            s.parse::<f64>().map(J::Float).map_err(|e| e.to_string())
        } else {
            s.parse::<i64>()
                .map(J::Int)
                .map_err(|e| format!("{} at {}", e, start))
        }
    }
    fn string(&mut self) -> Result<String, String> {
        self.eat(b'"')?;
        let mut out: Vec<u8> = Vec::new();
        loop {
            if self.i >= self.b.len() {
                return Err("unterminated string".into());
            }
            let c = self.b[self.i];
            self.i += 1;
            match c {
                b'"' => break,
                b'\\' => {
                    let e = *self.b.get(self.i).ok_or("bad escape")?;
                    self.i += 1;
                    match e {
                        b'n' => out.push(b'\n'),
                        b'r' => out.push(b'\r'),
                        b't' => out.push(b'\t'),
                        b'b' => out.push(8),
                        b'f' => out.push(12),
                        b'/' => out.push(b'/'),
                        b'\\' => out.push(b'\\'),
                        b'"' => out.push(b'"'),
                        b'u' => {
                            let h = std::str::from_utf8(&self.b[self.i..self.i + 4])
                                .map_err(|e| e.to_string())?;
                            let cp = u32::from_str_radix(h, 16).map_err(|e| e.to_string())?;
                            self.i += 4;
                            let ch = char::from_u32(cp).unwrap_or('\u{fffd}');
                            let mut tmp = [0u8; 4];
                            out.extend_from_slice(ch.encode_utf8(&mut tmp).as_bytes());
                        }
                        _ => return Err("bad escape".into()),
                    }
                }
                c => out.push(c),
            }
        }
        String::from_utf8(out).map_err(|e| e.to_string())
    }
}

/// Byte strings (argv items, env values) are written as JSON strings in which every byte outside
/// printable ASCII, and `%` itself, is written as `%XX`; lossless and readable.
pub fn bytes_to_str(b: &[u8]) -> String {
    let mut s = String::new();
    for &c in b {
        if (0x20..0x7f).contains(&c) && c != b'%' {
            s.push(c as char);
        } else {
            let _ = write!(s, "%{:02X}", c);
        }
    }
    s
}

pub fn str_to_bytes(s: &str) -> Result<Vec<u8>, String> {
    let b = s.as_bytes();
    let mut out = Vec::new();
    let mut i = 0;
    while i < b.len() {
        if b[i] == b'%' {
            let h = std::str::from_utf8(b.get(i + 1..i + 3).ok_or("bad % escape")?)
                .map_err(|e| e.to_string())?;
            out.push(u8::from_str_radix(h, 16).map_err(|e| e.to_string())?);
            i += 3;
        } else {
            out.push(b[i]);
            i += 1;
        }
    }
    Ok(out)
}

pub fn jbytes(b: &[u8]) -> J {
    J::Str(bytes_to_str(b))
}

pub fn btree_to_j(m: &BTreeMap<String, u64>) -> J {
    J::Obj(m.iter().map(|(k, v)| (k.clone(), J::Int(*v as i64))).collect())
}
