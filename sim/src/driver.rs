//! Check driver: fans seeded runs out to single-threaded worker processes, proves determinism,
//! minimises and replays violations, applies the known-findings file, writes the evidence file.
use crate::exec::Case;
use crate::json::{self, J};
use crate::stats::{Stats, Violation};
use crate::{gen_case, replay_dir, root, Pass, DEFAULT_SEED};
use std::collections::{BTreeMap, BTreeSet};
use std::io::{BufRead, BufReader};
use std::process::{Command, Stdio};
use std::sync::mpsc;
use std::time::{Duration, Instant};

const HANG_SECS: u64 = 300;

pub fn replay_file(case: &Case, v: &Violation, minimised_with: Option<usize>) -> J {
    let mut kv = vec![
        ("format", J::s("bpaf-sim-replay-1")),
        ("property", J::s(case.prop.clone())),
        (
            "violation",
            J::obj(vec![
                ("rule", J::s(v.rule.clone())),
                ("op_index", J::Int(v.op_index as i64)),
                ("key", J::s(v.key.clone())),
                ("detail", J::s(v.detail.clone())),
            ]),
        ),
        ("case", case.to_j()),
    ];
    if let Some(n) = minimised_with {
        kv.push(("minimised_with_executions", J::Int(n as i64)));
    }
    J::obj(kv)
}

/// the cases a replay file asks to execute, in order, in one process: an optional prelude
/// (earlier runs of the same worker process, for history-dependent failures) - written out as
/// `prelude`, or named by run index as `prelude_ref` and regenerated from the seed - and the
/// failing case itself
pub fn cases_of_replay(j: &J) -> Result<Vec<Case>, String> {
    let mut v = Vec::new();
    if let Some(p) = j.get("prelude") {
        for c in p.as_arr()? {
            v.push(Case::from_j(c)?);
        }
    }
    if let Some(r) = j.get("prelude_ref") {
        let prop = r.req("property")?.as_str()?;
        let seed = r.req("seed")?.as_u64()?;
        let pass = Pass::parse(r.req("pass")?.as_str()?);
        if let Some(J::Int(n)) = r.get("real_every") {
            crate::REAL_EVERY.store(*n as u64, std::sync::atomic::Ordering::Relaxed);
        }
        for i in r.req("runs")?.as_arr()? {
            v.push(crate::compose(prop, seed, i.as_i64()? as u64, pass));
        }
    }
    v.push(Case::from_j(j.req("case")?)?);
    Ok(v)
}

fn prelude_ref(prop: &str, seed: u64, pass: Pass, runs: &[u64]) -> J {
    J::obj(vec![
        ("property", J::s(prop)),
        ("seed", J::s(seed.to_string())),
        ("pass", J::s(pass.name())),
        (
            "real_every",
            J::Int(crate::REAL_EVERY.load(std::sync::atomic::Ordering::Relaxed) as i64),
        ),
        ("runs", J::Arr(runs.iter().map(|r| J::Int(*r as i64)).collect())),
    ])
}

/// A violation that does not reproduce from its case alone depends on what the worker ran
/// before. Find a short prelude (suffix doubling, then chunk removal) after which it does
/// reproduce in a fresh process, and write it out explicitly.
fn find_prelude(
    prop: &str,
    seed: u64,
    pass: Pass,
    before: &[u64],
    case: &J,
    violation: &J,
    out_path: &str,
) -> bool {
    let tmp = format!("{}.tmp", out_path);
    let mut attempts = 0;
    let mut try_runs = |runs: &[u64], attempts: &mut u32| -> bool {
        *attempts += 1;
        let f = J::obj(vec![
            ("format", J::s("bpaf-sim-replay-1")),
            ("property", J::s(prop)),
            ("violation", violation.clone()),
            ("prelude_ref", prelude_ref(prop, seed, pass, runs)),
            ("case", case.clone()),
        ]);
        if std::fs::write(&tmp, f.pretty()).is_err() {
            return false;
        }
        matches!(
            run_sub(&["replay", &tmp], Duration::from_secs(HANG_SECS)),
            Some((1, _)) | Some((3, _))
        )
    };
    let mut k = 1usize;
    let mut found: Option<Vec<u64>> = None;
    loop {
        let start = before.len().saturating_sub(k);
        if try_runs(&before[start..], &mut attempts) {
            found = Some(before[start..].to_vec());
            break;
        }
        if k >= before.len() {
            break;
        }
        k *= 2;
    }
    let mut runs = match found {
        Some(r) => r,
        None => {
            let _ = std::fs::remove_file(&tmp);
            return false;
        }
    };
    // drop chunks that are not needed
    let mut chunk = (runs.len() / 2).max(1);
    while attempts < 80 && runs.len() > 1 {
        let mut progressed = false;
        let mut at = 0;
        while at < runs.len() && attempts < 80 && runs.len() > 1 {
            let end = (at + chunk).min(runs.len());
            let mut cand = runs.clone();
            cand.drain(at..end);
            if !cand.is_empty() && try_runs(&cand, &mut attempts) {
                runs = cand;
                progressed = true;
            } else {
                at = end;
            }
        }
        if chunk == 1 && !progressed {
            break;
        }
        chunk = (chunk / 2).max(1);
    }
    let _ = std::fs::remove_file(&tmp);
    let explicit: Vec<J> = runs
        .iter()
        .map(|i| crate::compose(prop, seed, *i, pass).to_j())
        .collect();
    let f = J::obj(vec![
        ("format", J::s("bpaf-sim-replay-1")),
        ("property", J::s(prop)),
        ("violation", violation.clone()),
        (
            "note",
            J::s(format!(
                "history-dependent: reproduces only after the prelude below (runs {:?} of the same worker process, seed {}); found with {} replays",
                runs, seed, attempts
            )),
        ),
        ("prelude", J::Arr(explicit)),
        ("case", case.clone()),
    ]);
    std::fs::write(out_path, f.pretty()).is_ok()
}

#[derive(Clone, Debug)]
struct RawViolation {
    run: u64,
    pass: Pass,
    rule: String,
    path: String,
    key: String,
}

#[derive(Default)]
struct PassResult {
    /// run -> (hash, nontrivial hash)
    runs: BTreeMap<u64, (u64, Option<u64>)>,
    violations: Vec<RawViolation>,
    stats: Stats,
    harness_errors: Vec<String>,
    respawns: u32,
    /// workers given up after three deaths
    abandoned: u32,
}

enum Msg {
    Line(usize, String),
    Eof(usize),
}

struct WorkerState {
    offset: u64,
    last_begun: Option<u64>,
    last_done: Option<u64>,
    finished: bool,
    child: std::process::Child,
    last_activity: Instant,
    attempts: u32,
}

fn spawn_worker(
    prop: &str,
    seed: u64,
    pass: Pass,
    runs: u64,
    stride: u64,
    offset: u64,
    after: Option<u64>,
    reverse: bool,
    slot: usize,
    tx: &mpsc::Sender<Msg>,
) -> std::process::Child {
    let exe = std::env::current_exe().expect("current_exe");
    let mut cmd = Command::new(exe);
    cmd.arg("worker")
        .args(["--prop", prop])
        .args(["--seed", &seed.to_string()])
        .args(["--runs", &runs.to_string()])
        .args(["--stride", &stride.to_string()])
        .args(["--offset", &offset.to_string()])
        .args(["--pass", pass.name()]);
    if let Some(a) = after {
        cmd.args(["--after", &a.to_string()]);
    }
    if reverse {
        cmd.arg("--reverse");
    }
    let re = crate::REAL_EVERY.load(std::sync::atomic::Ordering::Relaxed);
    if re > 0 {
        cmd.args(["--real-every", &re.to_string()]);
    }
    cmd.env_remove("RUST_BACKTRACE");
    cmd.stdin(Stdio::null())
        .stdout(Stdio::piped())
        .stderr(Stdio::null());
    let mut child = cmd.spawn().expect("spawn worker");
    let out = child.stdout.take().expect("stdout");
    let tx = tx.clone();
    std::thread::spawn(move || {
        let rd = BufReader::new(out);
        for line in rd.lines() {
            match line {
                Ok(l) => {
                    if tx.send(Msg::Line(slot, l)).is_err() {
                        return;
                    }
                }
                Err(_) => break,
            }
        }
        let _ = tx.send(Msg::Eof(slot));
    });
    child
}

#[allow(clippy::too_many_arguments)]
fn run_pass(
    prop: &str,
    seed: u64,
    pass: Pass,
    runs: u64,
    workers: u64,
    reverse: bool,
) -> PassResult {
    let mut res = PassResult::default();
    if runs == 0 {
        return res;
    }
    let (tx, rx) = mpsc::channel::<Msg>();
    let mut ws: Vec<WorkerState> = Vec::new();
    for w in 0..workers {
        let child = spawn_worker(prop, seed, pass, runs, workers, w, None, reverse, w as usize, &tx);
        ws.push(WorkerState {
            offset: w,
            last_begun: None,
            last_done: None,
            finished: false,
            child,
            last_activity: Instant::now(),
            attempts: 0,
        });
    }
    let mut open = ws.len();
    while open > 0 {
        match rx.recv_timeout(Duration::from_secs(5)) {
            Ok(Msg::Line(slot, line)) => {
                let w = &mut ws[slot];
                w.last_activity = Instant::now();
                let mut it = line.splitn(2, ' ');
                let tag = it.next().unwrap_or("");
                let rest = it.next().unwrap_or("");
                match tag {
                    "B" => w.last_begun = rest.parse().ok(),
                    "R" => {
                        let f: Vec<&str> = rest.split(' ').collect();
                        if f.len() == 3 {
                            let run: u64 = f[0].parse().unwrap_or(u64::MAX);
                            let hash = u64::from_str_radix(f[1], 16).unwrap_or(0);
                            let nt = u64::from_str_radix(f[2], 16).ok();
                            res.runs.insert(run, (hash, nt));
                            w.last_done = Some(run);
                        }
                    }
                    "V" => {
                        let f: Vec<&str> = rest.splitn(4, ' ').collect();
                        if f.len() == 4 {
                            let key = json::parse(f[3])
                                .ok()
                                .and_then(|j| j.as_str().ok().map(|s| s.to_string()))
                                .unwrap_or_default();
                            res.violations.push(RawViolation {
                                run: f[0].parse().unwrap_or(0),
                                pass,
                                rule: f[1].to_string(),
                                path: f[2].to_string(),
                                key,
                            });
                        }
                    }
                    "S" => match json::parse(rest).and_then(|j| Stats::from_j(&j)) {
                        Ok(s) => {
                            res.stats.merge(&s);
                            w.finished = true;
                        }
                        Err(e) => res.harness_errors.push(format!("bad stats line: {}", e)),
                    },
                    _ => {}
                }
            }
            Ok(Msg::Eof(slot)) => {
                let status = ws[slot].child.wait();
                if ws[slot].finished {
                    open -= 1;
                    continue;
                }
                // the worker died in the middle of a run: attribute it and carry on
                let w = &mut ws[slot];
                let culprit = match (w.last_begun, w.last_done) {
                    (Some(b), d) if Some(b) != d => Some(b),
                    _ => None,
                };
                let why = match status {
                    Ok(s) => format!("worker ended with {}", s),
                    Err(e) => format!("worker wait failed: {}", e),
                };
                match culprit {
                    Some(run) => {
                        let case = gen_case(prop, seed, run, pass);
                        let v = Violation {
                            rule: "T1".into(),
                            op_index: 0,
                            key: "rule=T1 class=PROCESS-DIED".into(),
                            detail: format!(
                                "{} while executing this run (abort, stack overflow or a hang longer than {} s)",
                                why, HANG_SECS
                            ),
                        };
                        let _ = std::fs::create_dir_all(replay_dir());
                        let path = format!(
                            "{}/raw-{}-{}-{}-{}.json",
                            replay_dir(),
                            prop,
                            seed,
                            pass.name(),
                            run
                        );
                        let _ = std::fs::write(&path, replay_file(&case, &v, None).pretty());
                        res.violations.push(RawViolation {
                            run,
                            pass,
                            rule: v.rule.clone(),
                            path,
                            key: v.key.clone(),
                        });
                        w.attempts += 1;
                        if w.attempts >= 3 {
                            // three runs of this worker's share killed their process: that is
                            // evidence enough, do not spend minutes per further hang
                            res.abandoned += 1;
                            open -= 1;
                            continue;
                        }
                        res.respawns += 1;
                        w.last_done = Some(run);
                        w.child = spawn_worker(
                            prop,
                            seed,
                            pass,
                            runs,
                            workers,
                            w.offset,
                            Some(run),
                            reverse,
                            slot,
                            &tx,
                        );
                        w.last_activity = Instant::now();
                    }
                    None => {
                        res.harness_errors
                            .push(format!("worker {} ended without finishing: {}", slot, why));
                        open -= 1;
                    }
                }
            }
            Err(mpsc::RecvTimeoutError::Timeout) => {}
            Err(mpsc::RecvTimeoutError::Disconnected) => break,
        }
        // watchdog on silent workers
        for w in ws.iter_mut() {
            if !w.finished && w.last_activity.elapsed() > Duration::from_secs(HANG_SECS) {
                let _ = w.child.kill();
                w.last_activity = Instant::now();
            }
        }
    }
    res
}

fn known_findings(prop: &str) -> Vec<String> {
    let mut keys = Vec::new();
    if let Ok(text) = std::fs::read_to_string(format!("{}/known_findings.txt", root())) {
        for line in text.lines() {
            let line = line.trim();
            if !line.starts_with("known:") {
                continue;
            }
            if !line.contains(&format!("property={} ", prop)) {
                continue;
            }
            if let Some(ix) = line.find(" key=") {
                let rest = &line[ix + 5..];
                let key = rest.split(" ## ").next().unwrap_or(rest).trim();
                keys.push(key.to_string());
            }
        }
    }
    keys
}

struct Tier {
    clean: u64,
    faults: u64,
    determinism: u64,
}

fn tier_for(prop: &str, tier: &str) -> Tier {
    let scale = std::env::var("VERIF_SCALE")
        .ok()
        .and_then(|s| s.parse::<f64>().ok())
        .unwrap_or(1.0);
    let (c, f, d) = match (prop, tier) {
        ("C04", "quick") => (30_000, 45_000, 3_000),
        ("C04", _) => (800_000, 1_200_000, 40_000),
        ("C11", "quick") => (60_000, 60_000, 4_000),
        ("C11", _) => (1_000_000, 1_000_000, 40_000),
        ("C18", "quick") => (60_000, 40_000, 4_000),
        ("C18", _) => (1_200_000, 800_000, 40_000),
        (_, _) => (1_000, 1_000, 100),
    };
    let s = |x: u64| ((x as f64) * scale).max(16.0) as u64;
    Tier {
        clean: s(c),
        faults: s(f),
        determinism: s(d),
    }
}

fn run_sub(args: &[&str], timeout: Duration) -> Option<(i32, String)> {
    let exe = std::env::current_exe().ok()?;
    let mut child = Command::new(exe)
        .args(args)
        .env_remove("RUST_BACKTRACE")
        .stdin(Stdio::null())
        .stdout(Stdio::piped())
        .stderr(Stdio::null())
        .spawn()
        .ok()?;
    let mut out = child.stdout.take()?;
    let (tx, rx) = mpsc::channel();
    std::thread::spawn(move || {
        let mut s = String::new();
        let _ = std::io::Read::read_to_string(&mut out, &mut s);
        let _ = tx.send(s);
    });
    let start = Instant::now();
    loop {
        match child.try_wait() {
            Ok(Some(st)) => {
                let text = rx.recv_timeout(Duration::from_secs(5)).unwrap_or_default();
                // death by signal counts as a reproduction of a crash
                return Some((st.code().unwrap_or(139), text));
            }
            Ok(None) => {
                if start.elapsed() > timeout {
                    let _ = child.kill();
                    let _ = child.wait();
                    return Some((124, String::new()));
                }
                std::thread::sleep(Duration::from_millis(20));
            }
            Err(_) => return None,
        }
    }
}

pub fn check(args: &[String]) -> i32 {
    let get = |name: &str| -> Option<&str> {
        args.iter()
            .position(|a| a == name)
            .and_then(|i| args.get(i + 1))
            .map(|s| s.as_str())
    };
    let prop = match get("--prop") {
        Some(p) => p.to_string(),
        None => {
            eprintln!("check: --prop required");
            return 2;
        }
    };
    let tier = get("--tier").unwrap_or("quick").to_string();
    let seed: u64 = std::env::var("VERIF_SEED")
        .ok()
        .and_then(|s| s.trim().parse().ok())
        .unwrap_or(DEFAULT_SEED);
    let workers: u64 = std::env::var("VERIF_WORKERS")
        .ok()
        .and_then(|s| s.parse().ok())
        .unwrap_or(16);
    let t = tier_for(&prop, &tier);
    if prop == "C11" {
        let every: u64 = std::env::var("VERIF_REAL_EVERY")
            .ok()
            .and_then(|s| s.parse().ok())
            .unwrap_or(if tier == "quick" { 40 } else { 20 });
        crate::REAL_EVERY.store(every, std::sync::atomic::Ordering::Relaxed);
        for exe in [crate::c11::realproc(false), crate::c11::realproc(true)] {
            if !std::path::Path::new(&exe).exists() {
                println!("HARNESS-ERROR: {} is missing (run ./check --setup)", exe);
                return 2;
            }
        }
    }
    println!("VERIF_SEED={} property={} tier={} workers={}", seed, prop, tier, workers);
    println!(
        "plan: {} fault-free runs, {} fault-injecting runs, determinism sample {}",
        t.clean, t.faults, t.determinism
    );
    crate::world::install();
    crate::exec::install_panic_hook();
    let started = Instant::now();

    let clean = run_pass(&prop, seed, Pass::Clean, t.clean, workers, false);
    println!(
        "pass clean : {} runs, {} violations, {:.1}s",
        clean.runs.len(),
        clean.violations.len(),
        started.elapsed().as_secs_f64()
    );
    let t1 = Instant::now();
    let faults = run_pass(&prop, seed, Pass::Faults, t.faults, workers, false);
    println!(
        "pass faults: {} runs, {} violations, {:.1}s",
        faults.runs.len(),
        faults.violations.len(),
        t1.elapsed().as_secs_f64()
    );

    // determinism proof: the same runs in a different process layout (one process, reverse
    // order) must produce the same per-run hashes
    let t2 = Instant::now();
    let det_a = run_pass(&prop, seed, Pass::Faults, t.determinism.min(t.faults), 1, true);
    let det_b = run_pass(&prop, seed, Pass::Clean, t.determinism.min(t.clean), 3, true);
    let mut det_mismatch: Vec<(Pass, u64)> = Vec::new();
    for (pass, det, main) in [
        (Pass::Faults, &det_a, &faults),
        (Pass::Clean, &det_b, &clean),
    ] {
        for (run, (h, _)) in &det.runs {
            match main.runs.get(run) {
                Some((h2, _)) if h2 == h => {}
                Some(_) => det_mismatch.push((pass, *run)),
                None => {}
            }
        }
    }
    let det_compared = det_a.runs.len() + det_b.runs.len();
    println!(
        "determinism: {} runs re-executed in other process layouts, {} mismatches, {:.1}s",
        det_compared,
        det_mismatch.len(),
        t2.elapsed().as_secs_f64()
    );

    let mut harness_errors: Vec<String> = Vec::new();
    harness_errors.extend(clean.harness_errors.iter().cloned());
    harness_errors.extend(faults.harness_errors.iter().cloned());
    harness_errors.extend(det_a.harness_errors.iter().cloned());
    harness_errors.extend(det_b.harness_errors.iter().cloned());
    if clean.runs.len() as u64 != t.clean || faults.runs.len() as u64 != t.faults {
        // runs lost to a dead worker are reported as violations; anything else is a harness bug
        let died = clean.respawns + faults.respawns + clean.abandoned + faults.abandoned;
        if died == 0 {
            harness_errors.push(format!(
                "expected {}+{} runs, got {}+{}",
                t.clean,
                t.faults,
                clean.runs.len(),
                faults.runs.len()
            ));
        }
    }

    // ---- violations: one per distinct key, lowest run first
    let mut all: Vec<RawViolation> = Vec::new();
    all.extend(clean.violations.iter().cloned());
    all.extend(faults.violations.iter().cloned());
    all.sort_by_key(|v| (v.pass == Pass::Faults, v.run));
    let total_violating_runs = all.len();
    let mut by_key: BTreeMap<String, RawViolation> = BTreeMap::new();
    for v in &all {
        by_key.entry(v.key.clone()).or_insert_with(|| v.clone());
    }
    let known = known_findings(&prop);
    let mut exit = 0;
    let mut reported = 0;
    let mut known_hits: BTreeSet<String> = BTreeSet::new();
    let mut violation_lines: Vec<String> = Vec::new();
    for (key, v) in by_key.iter() {
        if known.iter().any(|k| k == key) {
            known_hits.insert(key.clone());
            continue;
        }
        if reported >= 5 {
            continue;
        }
        reported += 1;
        let final_path = format!(
            "{}/{}-{}-{}-{}.json",
            replay_dir(),
            prop,
            seed,
            v.pass.name(),
            v.run
        );
        let mut path = v.path.clone();
        if key.contains("PROCESS-DIED") {
            let _ = std::fs::copy(&v.path, &final_path);
            path = final_path.clone();
        } else {
            match run_sub(&["minimize", &v.path, &final_path], Duration::from_secs(240)) {
                Some((0, _)) => path = final_path.clone(),
                Some((3, _)) => {
                    // fails in the worker, not alone: it depends on the worker's earlier runs
                    let raw = std::fs::read_to_string(&v.path)
                        .ok()
                        .and_then(|t| json::parse(&t).ok());
                    // (the run itself comes last: regenerating it repeats what its own
                    // generation did in the process - candidate definitions that were checked
                    // and rejected - before the explicit case is executed)
                    let mut before: Vec<u64> = (0..v.run).filter(|i| i % workers == v.run % workers).collect();
                    before.push(v.run);
                    let ok = match raw {
                        Some(raw) => match (raw.get("case"), raw.get("violation")) {
                            (Some(c), Some(viol)) => {
                                find_prelude(&prop, seed, v.pass, &before, c, viol, &final_path)
                            }
                            _ => false,
                        },
                        None => false,
                    };
                    if ok {
                        println!("note: violation {} depends on earlier runs of its worker; replay file carries the prelude", key);
                        path = final_path.clone();
                    } else {
                        let _ = std::fs::copy(&v.path, &final_path);
                        path = final_path.clone();
                    }
                }
                other => {
                    println!("note: minimisation did not finish ({:?}), keeping the raw case", other.map(|o| o.0));
                    let _ = std::fs::copy(&v.path, &final_path);
                    path = final_path.clone();
                }
            }
        }
        // replay in a fresh process must fail the same way
        // exit 1: the recorded rule failed again; exit 3: the file reproduces a violation of the
        // property under another rule label (e.g. recorded by the twin rule in the worker, seen
        // first by the repeat rule when the file is executed alone) - both are reproductions
        let confirmed = match run_sub(&["replay", &path], Duration::from_secs(HANG_SECS + 60)) {
            Some((1, text)) | Some((3, text)) => {
                println!("{}", text.trim_end());
                true
            }
            Some((code, _)) if key.contains("PROCESS-DIED") && code != 0 && code != 2 => true,
            Some((code, text)) => {
                println!("replay of {} exited {}: {}", path, code, text.trim_end());
                false
            }
            None => false,
        };
        if confirmed {
            violation_lines.push(format!("VIOLATION property={} replay={}", prop, path));
            exit = 1;
        } else {
            harness_errors.push(format!(
                "violation {} (run {}) did not replay from {}",
                key, v.run, path
            ));
        }
    }
    // same seed, same operations, different outcome in another process layout: the outcome is
    // not a function of definition, vector and environment. Only reported when no in-process
    // rule has already pinned the defect down with a self-contained replay file.
    if exit == 0 {
        for (pass, run) in det_mismatch.iter().take(1) {
            let case = crate::compose(&prop, seed, *run, *pass);
            let v = Violation {
                rule: "T7x".into(),
                op_index: 0,
                key: "rule=T7x history-dependence".into(),
                detail: "the same run observed different things when executed after a different history of earlier runs in its process".into(),
            };
            if known.iter().any(|k| k == &v.key) {
                known_hits.insert(v.key.clone());
                continue;
            }
            let rf = replay_file(&case, &v, None);
            let path = format!("{}/{}-{}-{}-{}-T7x.json", replay_dir(), prop, seed, pass.name(), run);
            let _ = std::fs::create_dir_all(replay_dir());
            // which layout was polluted? main: same residue class, ascending; proof: descending
            let mut main_before: Vec<u64> = (0..*run).filter(|i| i % workers == run % workers).collect();
            main_before.push(*run);
            let det_workers: u64 = if *pass == Pass::Faults { 1 } else { 3 };
            let det_total = if *pass == Pass::Faults { t.determinism.min(t.faults) } else { t.determinism.min(t.clean) };
            let mut det_before: Vec<u64> = (*run + 1..det_total).filter(|i| i % det_workers == run % det_workers).collect();
            det_before.reverse();
            det_before.push(*run);
            let mut ok = false;
            for before in [&main_before, &det_before] {
                if let (Some(c), Some(viol)) = (rf.get("case"), rf.get("violation")) {
                    if find_prelude(&prop, seed, *pass, before, c, viol, &path) {
                        ok = true;
                        break;
                    }
                }
            }
            if ok {
                if let Some((1, text)) = run_sub(&["replay", &path], Duration::from_secs(HANG_SECS)) {
                    println!("{}", text.trim_end());
                }
                violation_lines.push(format!("VIOLATION property={} replay={}", prop, path));
                exit = 1;
            } else {
                harness_errors.push(format!(
                    "run {} ({}) differs between process layouts but no prelude reproduces it",
                    run,
                    pass.name()
                ));
            }
        }
    }
    for r in [&clean, &faults] {
        for (k, n) in &r.stats.counters {
            if let Some(key) = k.strip_prefix("known-finding.") {
                if *n > 0 {
                    known_hits.insert(key.to_string());
                }
            }
        }
    }
    for k in &known_hits {
        println!("KNOWN-FINDING: property={} {}", prop, k);
    }
    for l in &violation_lines {
        println!("{}", l);
    }

    // ---- evidence
    let mut stats = Stats::default();
    stats.merge(&clean.stats);
    stats.merge(&faults.stats);
    let evaluations = (clean.runs.len() + faults.runs.len()) as u64;
    let mut distinct: BTreeSet<u64> = BTreeSet::new();
    for r in clean.runs.values().chain(faults.runs.values()) {
        if let Some(h) = r.1 {
            distinct.insert(h);
        }
    }
    let mut event_hashes: BTreeSet<u64> = BTreeSet::new();
    for r in clean.runs.values().chain(faults.runs.values()) {
        event_hashes.insert(r.0);
    }
    let wall = started.elapsed().as_secs_f64();
    let samples: Vec<J> = (0..3u64)
        .map(|i| {
            let pass = if i == 0 { Pass::Clean } else { Pass::Faults };
            gen_case(&prop, seed, i, pass).to_j()
        })
        .collect();

    // sanity gate: dead probes mean a dead workload, which must not pass silently
    let mut dead: Vec<String> = Vec::new();
    for p in crate::required_probes(&prop) {
        if stats.get(p) == 0 {
            dead.push(p.to_string());
        }
    }
    if stats.get("real.harness_error") > 0 {
        harness_errors.push(format!(
            "{} real child processes could not be run",
            stats.get("real.harness_error")
        ));
    }
    if !dead.is_empty() {
        harness_errors.push(format!("probes never hit: {}", dead.join(", ")));
    }

    let coverage = J::obj(vec![
        ("evaluations", J::Int(evaluations as i64)),
        ("distinct_nontrivial", J::Int(distinct.len() as i64)),
        ("rule", J::s(crate::nontrivial_rule(&prop))),
        ("samples", J::Arr(samples)),
        ("simulated_runs", J::Int(evaluations as i64)),
        ("runs_fault_free", J::Int(clean.runs.len() as i64)),
        ("runs_fault_injecting", J::Int(faults.runs.len() as i64)),
        ("runs_per_hour", J::Int((evaluations as f64 / wall * 3600.0) as i64)),
        ("seeds_per_hour", J::Int((evaluations as f64 / wall * 3600.0) as i64)),
        (
            "simulated_time",
            J::obj(vec![
                ("unit", J::s("logical steps (ticks of the step counter); bpaf has no clock")),
                ("total_ticks", J::Int(stats.get("ticks.total") as i64)),
                (
                    "max_ticks_in_one_operation",
                    J::Int(stats.max.get("ticks.max_per_op").copied().unwrap_or(0) as i64),
                ),
                (
                    "step_budget_per_operation",
                    J::s(format!(
                        "{} + {} * L^3, L = argv bytes + items + 8",
                        crate::c04::BUDGET_BASE,
                        crate::c04::BUDGET_PER_L3
                    )),
                ),
            ]),
        ),
        ("counters", stats.to_j().get("counters").cloned().unwrap_or(J::Null)),
        ("maxima", stats.to_j().get("max").cloned().unwrap_or(J::Null)),
        ("distinct_abstract_states", J::Int(stats.states.len() as i64)),
        (
            "distinct_abstract_states_measure",
            J::s("distinct (definition skeleton, operation kind, env-state class, fault kind, outcome class) tuples"),
        ),
        ("distinct_event_log_hashes", J::Int(event_hashes.len() as i64)),
        (
            "determinism_proof",
            J::obj(vec![
                ("runs_reexecuted_in_other_process_layout", J::Int(det_compared as i64)),
                ("mismatches", J::Int(det_mismatch.len() as i64)),
                (
                    "layouts",
                    J::s("main: 16 worker processes, ascending run order; proof: 1 process (fault pass) and 3 processes (fault-free pass), descending run order"),
                ),
            ]),
        ),
        (
            "traces_validated_against_impl",
            J::Int(stats.get("rule.P4.evaluated") as i64),
        ),
        ("violating_runs", J::Int(total_violating_runs as i64)),
        ("distinct_violation_keys", J::Int(by_key.len() as i64)),
        ("known_findings_matched", J::Arr(known_hits.iter().map(|k| J::s(k.clone())).collect())),
        ("worker_deaths", J::Int((clean.respawns + faults.respawns) as i64)),
        ("real_vs_stub", crate::real_vs_stub(&prop)),
        ("harness_errors", J::Arr(harness_errors.iter().map(|e| J::s(e.clone())).collect())),
    ]);
    let evidence = J::obj(vec![
        ("property_id", J::s(prop.clone())),
        ("tier", J::s(tier.clone())),
        ("seed", J::Int(seed as i64)),
        ("level", J::s("exploration")),
        ("coverage", coverage),
        (
            "assumptions",
            J::Arr(crate::assumptions(&prop).into_iter().map(J::s).collect()),
        ),
        ("wall_s", J::Float(wall)),
        ("violations", J::Int(violation_lines.len() as i64)),
    ]);
    let _ = std::fs::create_dir_all(format!("{}/evidence", root()));
    let ev_path = format!("{}/evidence/{}.json", root(), prop);
    if let Err(e) = std::fs::write(&ev_path, evidence.pretty()) {
        harness_errors.push(format!("cannot write {}: {}", ev_path, e));
    }
    println!(
        "summary: {} runs ({} distinct non-trivial), {} abstract states, max ticks/op {}, wall {:.1}s",
        evaluations,
        distinct.len(),
        stats.states.len(),
        stats.max.get("ticks.max_per_op").copied().unwrap_or(0),
        wall
    );
    if exit == 1 {
        return 1;
    }
    if !harness_errors.is_empty() {
        for e in &harness_errors {
            println!("HARNESS-ERROR: {}", e);
        }
        return 2;
    }
    println!("OK property={} held on everything explored", prop);
    0
}
