//! Deterministic simulation harness for pacak/bpaf. See /verif/DESIGN.md.
mod c04;
mod c11;
mod c18;
mod driver;
mod exec;
mod gen;
mod json;
mod minimize;
mod rng;
mod shape;
mod stats;
mod val;
mod world;

use exec::Case;
use stats::{RunReport, Stats};
use std::io::Write;

pub const DEFAULT_SEED: u64 = 20261002;
/// root of the verification tree; `./check` exports its own directory so that a snapshot of
/// /verif run from elsewhere keeps its build output, evidence and replays to itself
pub fn root() -> String {
    // cached before the worker wipes its real environment (see world::real_env_init)
    static ROOT: std::sync::OnceLock<String> = std::sync::OnceLock::new();
    ROOT.get_or_init(|| std::env::var("VERIF_ROOT").unwrap_or_else(|_| "/verif".to_string()))
        .clone()
}
pub fn replay_dir() -> String {
    format!("{}/replays", root())
}
thread_local! {
    /// keys of known findings (from known_findings.txt); loaded by workers only, so that
    /// `replay` still reproduces a known finding from its file
    static KNOWN: std::cell::RefCell<Vec<(String, String)>> = std::cell::RefCell::new(Vec::new());
}

pub fn load_known_findings() {
    let mut v = Vec::new();
    if let Ok(text) = std::fs::read_to_string(format!("{}/known_findings.txt", root())) {
        for line in text.lines() {
            let line = line.trim();
            if !line.starts_with("known:") {
                continue;
            }
            let prop = line
                .split_whitespace()
                .find_map(|w| w.strip_prefix("property="))
                .unwrap_or("")
                .to_string();
            if let Some(ix) = line.find(" key=") {
                let rest = &line[ix + 5..];
                let key = rest.split(" ## ").next().unwrap_or(rest).trim().to_string();
                v.push((prop, key));
            }
        }
    }
    KNOWN.with(|k| *k.borrow_mut() = v);
}

/// a violation with this key is a recorded finding: counted, not reported, and the run goes on
pub fn is_known(prop: &str, key: &str) -> bool {
    KNOWN.with(|k| k.borrow().iter().any(|(p, kk)| p == prop && kk == key))
}

/// C11: every n-th run also spawns real child processes (0 = never)
pub static REAL_EVERY: std::sync::atomic::AtomicU64 = std::sync::atomic::AtomicU64::new(0);

/// which pass of a check: fault-free or fault-injecting
#[derive(Clone, Copy, Debug, PartialEq, Eq)]
pub enum Pass {
    Clean,
    Faults,
}

impl Pass {
    pub fn name(self) -> &'static str {
        match self {
            Pass::Clean => "clean",
            Pass::Faults => "faults",
        }
    }
    pub fn parse(s: &str) -> Pass {
        if s == "faults" {
            Pass::Faults
        } else {
            Pass::Clean
        }
    }
    fn salt(self) -> u64 {
        match self {
            Pass::Clean => 0x0c1e_a000,
            Pass::Faults => 0xfa17_5000,
        }
    }
}

pub fn gen_case(prop: &str, seed: u64, run: u64, pass: Pass) -> Case {
    let s = seed ^ pass.salt();
    let mut c = match prop {
        "C04" => c04::gen_case(s, run, pass == Pass::Faults),
        "C18" => c18::gen_case(s, run, pass == Pass::Faults),
        "C11" => c11::gen_case(
            s,
            run,
            pass == Pass::Faults,
            REAL_EVERY.load(std::sync::atomic::Ordering::Relaxed),
        ),
        _ => panic!("unknown property {}", prop),
    };
    c.seed = seed;
    c
}

/// the case a worker executes for run `i`: every fourth run also carries the previous run as an
/// interlude so that T7 (position independence) is evaluated on it
pub fn compose(prop: &str, seed: u64, i: u64, pass: Pass) -> Case {
    let mut case = gen_case(prop, seed, i, pass);
    if i % 4 == 1 {
        case.interlude.push(gen_case(prop, seed, i - 1, pass));
    }
    case
}

/// execute a case; when it carries an interlude also check T7 (position independence)
pub fn run_case(case: &Case, stats: &mut Stats) -> RunReport {
    let first = run_plain(case, stats);
    if case.interlude.is_empty() || first.violation.is_some() || first.invalid {
        return first;
    }
    for c in &case.interlude {
        let mut scratch = Stats::default();
        let _ = run_plain(c, &mut scratch);
    }
    let mut scratch = Stats::default();
    let again = run_plain(case, &mut scratch);
    stats.bump("rule.T7.evaluated");
    if again.hash != first.hash {
        let mut diff = String::new();
        for (a, b) in first.trace.iter().zip(again.trace.iter()) {
            if a != b {
                diff = format!("first execution : {}\nsecond execution: {}", a, b);
                break;
            }
        }
        if diff.is_empty() {
            diff = format!(
                "first execution: {} observed operations, second: {} (violation in second: {:?})",
                first.trace.len(),
                again.trace.len(),
                again.violation.as_ref().map(|v| v.key.clone())
            );
        }
        let mut r = first;
        r.violation = Some(stats::Violation {
            rule: "T7".into(),
            op_index: 0,
            key: "rule=T7 position-dependence".into(),
            detail: format!(
                "the same case executed twice in one process ({} other case(s) in between) observed different things, so an outcome depends on what ran earlier in the process\n{}",
                case.interlude.len(),
                diff
            ),
        });
        return r;
    }
    first
}

fn run_plain(case: &Case, stats: &mut Stats) -> RunReport {
    match case.prop.as_str() {
        "C04" => c04::run_case(case, stats),
        "C18" => c18::run_case(case, stats),
        "C11" => c11::run_case(case, stats),
        p => panic!("unknown property {}", p),
    }
}

pub fn required_probes(prop: &str) -> Vec<&'static str> {
    match prop {
        "C04" => vec![
            "op.run",
            "op.complete",
            "op.print",
            "op.markdown",
            "op.html",
            "op.manpage",
            "op.check",
            "op.setenv",
            "op.newparser",
            "outcome.value",
            "outcome.stdout",
            "outcome.stderr",
            "outcome.completion",
            "outcome.text",
            "fault.callback_fail.fired",
            "fault.callback_panic.fired",
            "probe.callback_panicked_mid_op",
            "probe.env_read_during_op",
            "probe.twin_compared_after_history",
            "probe.twin_on_fresh_thread",
            "rule.T2.evaluated",
            "rule.T3.evaluated",
            "rule.T4.evaluated",
            "rule.T6.evaluated",
            "rule.T7.evaluated",
            "rule.T8.evaluated",
        ],
        "C11" => vec![
            "op.launch",
            "class.value",
            "class.stdout",
            "class.stderr",
            "class.completion",
            "class.script",
            "rule.P1.evaluated",
            "rule.P2.evaluated",
            "rule.P4.evaluated",
            "rule.P5.evaluated",
            "rule.P6.evaluated",
            "probe.launch_with_environment",
            "entry.OptionParser_run",
            "entry.Parser_run",
            "entry.try_run",
            "probe.parser_owns_a_value_with_a_destructor",
            "probe.launch_with_a_terminal_on_one_stream",
            "real.tty_child",
            "rule.T7.evaluated",
            "real.spawned",
            "real.variant_plain",
            "real.variant_dull_color",
            "real.agrees_with_simulation",
            "probe.argc_zero",
            "probe.argv0_non_utf8",
            "probe.argv0_is_a_path",
            "probe.no_program_name",
            "probe.exit_inside_run_inner",
            "probe.simulated_process_panicked",
            "probe.real_child_panicked",
            "fault.stdout_enospc_at_0.fired",
            "fault.stdout_epipe_at_0.fired",
            "fault.stdout_enospc_mid_stream.fired",
            "fault.stdout_closed.fired",
            "fault.stderr_enospc_at_0.fired",
            "fault.stderr_closed.fired",
        ],
        "C18" => vec![
            "op.run",
            "op.setenv",
            "op.newparser",
            "line.plain",
            "line.not_plain",
            "outcome.value",
            "outcome.stderr",
            "outcome.stdout",
            "fault.env_unset.applied",
            "fault.env_empty.applied",
            "fault.env_valid.applied",
            "fault.env_invalid.applied",
            "fault.env_non-utf8.applied",
            "rule.R1.evaluated",
            "rule.R2.evaluated",
            "rule.R3.evaluated",
            "rule.R4.evaluated",
            "rule.R4.env_only.evaluated",
            "rule.R5.evaluated",
            "rule.R5alt.evaluated",
            "rule.R7.evaluated",
            "rule.R8.evaluated",
            "rule.R9.evaluated",
            "rule.R3adj.evaluated",
            "probe.R3adj_first_member_from_variable",
            "rule.R10.evaluated",
            "probe.R10_value_from_variables_on_empty_line",
            "rule.R11.evaluated",
            "rule.R13.evaluated",
            "probe.R8_name_shared_with_outer_level",
            "rule.T7.evaluated",
            "probe.read_found_variable_set",
            "probe.same_variable_read_twice_in_one_run",
            "probe.help_rendered_with_variable_set",
            "probe.R2_with_invalid_variable",
            "probe.R3_inside_subcommand",
            "probe.alias_decided_the_value",
            "probe.non_utf8_reached_osstring",
            "probe.invalid_value_under_fallback",
        ],
        _ => vec![],
    }
}

pub fn nontrivial_rule(prop: &str) -> String {
    match prop {
        "C04" => "one evaluation = one simulated run: a seeded history of 2..12 operations (run_inner, completion at revisions 0/1/7/8/9, markdown/html/manpage, check_invariants, env edits, new parsers) on 1..2 long-lived generated parsers. A run is non-trivial when it had at least one seam event (environment read, env edit, injected callback fault) AND its operations ended in at least two different outcome classes; distinct = distinct hash of (definitions, initial environment, operation list with fault plans)".to_string(),
        "C11" => "one evaluation = one simulated run: 1..4 process launches of one generated definition - (argv[0] form, argument vector, stream fault plan) - each executed as a simulated process (real OptionParser::run() behind the argv/stream/exit seams) and, for a seeded sample, as a real child process of the unhooked build. A run is non-trivial when its launches fall into at least two different outcome classes (value / help-or-version / failure / completion / script dump); distinct = distinct hash of (definition, launches with fault plans)".to_string(),
        "C18" => "one evaluation = one simulated run: a seeded history of 2..10 operations (environment edits over declared names, their aliases and undeclared look-alikes; run_inner on plain and mutated command lines; help requests; new parsers) on 1..2 long-lived generated parsers whose named items are env-backed under every wrapper. A run is non-trivial when at least one environment read found a variable set AND at least one relational rule (R2 line-wins or R3 variable-equals-typed-value) was evaluated on it; distinct = distinct hash of (definitions, initial environment, operation list)".to_string(),
        _ => String::new(),
    }
}

pub fn assumptions(prop: &str) -> Vec<String> {
    let mut v = vec![
        "seeded sampling, not enumeration: a clean batch is evidence, not proof".to_string(),
        "the seams in /repo/src/verif.rs (cfg bpaf_verif) carry every access of bpaf to the environment, argv, stdout/stderr and process::exit; accesses that bypass them are not assumed away but looked for: canary variables in the worker's real environment flipped together with the simulated ones, missing bytes on the simulated streams, worker death on a real exit, and the real-child tier of C11".to_string(),
        "generated definitions respect bpaf's documented usage rules and pass check_invariants".to_string(),
    ];
    if prop == "C11" {
        v.push("tier A's stream stub reproduces std's contract as measured on rustc 1.95 on this image (line-buffered stdout, panic on write error, tail flushed at exit with errors ignored, EBADF is silent success); tier B (real children) keeps it honest and any fault-free disagreement is a violation".to_string());
        v.push("tier B covers Linux, pipes, /dev/full, closed descriptors, a pipe without reader and a pseudo terminal on one of the two streams (never both: a colour build colours its output there by design); argc = 0 and write errors in mid-stream exist in tier A only".to_string());
        v.push("for definitions with their own max_width (one in four) the promised text is what ParseFailure::print_message(width) writes for the failure run_inner returned; for the others it is built from monochrome() plus the documented prefix and newline".to_string());
    }
    if prop == "C18" {
        v.push("relational rules R2-R5 are evaluated only on command lines the oracle's scanner fully understands and only for items in the contexts argued sound in DESIGN.md section 7 (C18); other lines and contexts still get R1 and R7".to_string());
        v.push("a finite pool of static variable names; Windows' case-insensitive environment is not modelled".to_string());
    }
    if prop == "C04" {
        v.push("'for every byte-string vector' is reached only as far as the workload samples inputs; the simulation adds the history, ambient-state, exit and step-count dimensions".to_string());
    }
    v
}

pub fn real_vs_stub(_prop: &str) -> json::J {
    json::J::obj(vec![
        ("real", json::J::s("tokeniser, State, every parser and combinator, error selection, help/usage, completion, console/html/markdown/roff renderers, OptionParser::{run, run_inner}, ParseFailure::{print_message, exit_code}, Args::current_args")),
        ("stub", json::J::s("std::env::var_os (simulated env store with read trace), std::env::args_os (simulated argv), print!/println!/eprintln! (std stream contract with injectable write faults), std::process::exit (recorded, unwinds), user callbacks and FromStr of the value type (harness closures with a fault plan)")),
        ("not_compiled", json::J::s("colour features (supports-color, owo-colors), bpaf_derive")),
    ])
}

fn arg<'a>(args: &'a [String], name: &str) -> Option<&'a str> {
    args.iter()
        .position(|a| a == name)
        .and_then(|i| args.get(i + 1))
        .map(|s| s.as_str())
}

fn init_sim() {
    world::real_env_init(&gen::all_env_names());
    world::install();
    exec::install_panic_hook();
}

fn worker(args: &[String]) -> i32 {
    init_sim();
    load_known_findings();
    exec::start_watchdog(45);
    let prop = arg(args, "--prop").expect("--prop");
    let seed: u64 = arg(args, "--seed").expect("--seed").parse().expect("seed");
    let runs: u64 = arg(args, "--runs").expect("--runs").parse().expect("runs");
    let stride: u64 = arg(args, "--stride").unwrap_or("1").parse().expect("stride");
    let offset: u64 = arg(args, "--offset").unwrap_or("0").parse().expect("offset");
    let pass = Pass::parse(arg(args, "--pass").unwrap_or("clean"));
    let reverse = args.iter().any(|a| a == "--reverse");
    if let Some(n) = arg(args, "--real-every") {
        REAL_EVERY.store(n.parse().expect("real-every"), std::sync::atomic::Ordering::Relaxed);
    }
    let after: Option<u64> = arg(args, "--after").map(|s| s.parse().expect("after"));
    let stdout = std::io::stdout();
    let mut out = stdout.lock();
    let mut stats = Stats::default();
    let mut seen_keys: std::collections::BTreeSet<String> = std::collections::BTreeSet::new();
    let mut indices: Vec<u64> = (0..runs).filter(|i| i % stride == offset).collect();
    if reverse {
        indices.reverse();
    }
    if let Some(a) = after {
        // resume behind a run that killed the previous worker
        if let Some(pos) = indices.iter().position(|i| *i == a) {
            indices.drain(..=pos);
        }
    }
    for i in indices {
        // generation and bookkeeping count as progress too (a worker that only skips runs
        // after enough violations must not look hung)
        exec::HEARTBEAT.fetch_add(1, std::sync::atomic::Ordering::Relaxed);
        if stats.get("runs.violating") >= 50 || stats.get("runs.violating.T5") >= 3 {
            // plenty of evidence; do not burn the budget on a tree that fails everywhere
            stats.bump("runs.skipped_after_50_violations");
            continue;
        }
        let _ = writeln!(out, "B {}", i);
        let _ = out.flush();
        let case = compose(prop, seed, i, pass);
        let rep = run_case(&case, &mut stats);
        stats.bump("runs");
        if rep.invalid {
            stats.bump("runs.invalid");
        }
        if let Some(v) = &rep.violation {
            stats.bump("runs.violating");
            stats.bump(&format!("runs.violating.{}", v.rule));
        }
        // one raw case per distinct failure key and worker is plenty
        if let Some(v) = rep.violation.as_ref().filter(|v| seen_keys.insert(v.key.clone())) {
            let _ = std::fs::create_dir_all(replay_dir());
            let path = format!(
                "{}/raw-{}-{}-{}-{}.json",
                replay_dir(),
                prop,
                seed,
                pass.name(),
                i
            );
            let _ = std::fs::write(&path, driver::replay_file(&case, v, None).pretty());
            let _ = writeln!(
                out,
                "V {} {} {} {}",
                i,
                v.rule,
                path,
                json::J::s(v.key.clone()).to_string()
            );
        }
        let _ = writeln!(
            out,
            "R {} {:016x} {}",
            i,
            rep.hash,
            match rep.nontrivial {
                Some(h) => format!("{:016x}", h),
                None => "-".to_string(),
            }
        );
    }
    let _ = writeln!(out, "S {}", stats.to_j().to_string());
    let _ = out.flush();
    0
}

fn replay(args: &[String]) -> i32 {
    init_sim();
    exec::start_watchdog(45);
    let path = match args.first() {
        Some(p) => p,
        None => {
            eprintln!("usage: replay <file>");
            return 2;
        }
    };
    let text = match std::fs::read_to_string(path) {
        Ok(t) => t,
        Err(e) => {
            eprintln!("cannot read {}: {}", path, e);
            return 2;
        }
    };
    let j = match json::parse(&text) {
        Ok(j) => j,
        Err(e) => {
            eprintln!("bad json: {}", e);
            return 2;
        }
    };
    let cases = match driver::cases_of_replay(&j) {
        Ok(c) => c,
        Err(e) => {
            eprintln!("bad replay file: {}", e);
            return 2;
        }
    };
    let want_rule = j
        .get("violation")
        .and_then(|v| v.get("rule"))
        .and_then(|r| r.as_str().ok())
        .map(|s| s.to_string());
    let mut stats = Stats::default();
    let hash_only = args.iter().any(|a| a == "--hash-only");
    let skip_prelude = args.iter().any(|a| a == "--alone");
    let mut last = None;
    let n = cases.len();
    for (i, c) in cases.iter().enumerate() {
        if skip_prelude && i + 1 < n {
            continue;
        }
        let rep = run_case(c, &mut stats);
        last = Some((c.prop.clone(), rep));
    }
    let (prop, rep) = match last {
        Some(x) => x,
        None => return 2,
    };
    if hash_only {
        println!("HASH {:016x}", rep.hash);
        return 0;
    }
    if want_rule.as_deref() == Some("T7x") {
        // history dependence across cases: the same case, alone in a fresh process, must
        // observe what it observed here after the recorded prelude
        let alone = std::process::Command::new(std::env::current_exe().expect("exe"))
            .args(["replay", path, "--alone", "--hash-only"])
            .output();
        let alone_hash = alone
            .ok()
            .and_then(|o| String::from_utf8(o.stdout).ok())
            .and_then(|t| t.lines().find_map(|l| l.strip_prefix("HASH ").map(|h| h.to_string())));
        return match alone_hash {
            Some(h) if h != format!("{:016x}", rep.hash) => {
                println!(
                    "REPRODUCED property={} rule=T7x key=rule=T7x history-dependence\nafter the recorded prelude of {} case(s) the run observes {:016x}, alone in a fresh process it observes {}\nlast observations after the prelude:\n{}",
                    prop,
                    n - 1,
                    rep.hash,
                    h,
                    rep.trace.join("\n")
                );
                1
            }
            Some(_) => {
                println!("NOT-REPRODUCED property={} (hash {:016x} with and without the prelude)", prop, rep.hash);
                0
            }
            None => 2,
        };
    }
    match rep.violation {
        Some(v) => {
            println!(
                "REPRODUCED property={} rule={} op={} key={}\n{}",
                prop, v.rule, v.op_index, v.key, v.detail
            );
            match want_rule {
                Some(w) if w != v.rule => {
                    println!("(recorded rule was {})", w);
                    3
                }
                _ => 1,
            }
        }
        None => {
            println!("NOT-REPRODUCED property={} (hash {:016x})", prop, rep.hash);
            0
        }
    }
}

fn minimize_cmd(args: &[String]) -> i32 {
    init_sim();
    let (inp, outp) = match (args.first(), args.get(1)) {
        (Some(a), Some(b)) => (a, b),
        _ => {
            eprintln!("usage: minimize <in> <out>");
            return 2;
        }
    };
    let j = json::parse(&std::fs::read_to_string(inp).expect("read")).expect("json");
    let case = Case::from_j(j.req("case").expect("case")).expect("case");
    let mut stats = Stats::default();
    let first = match run_case(&case, &mut stats).violation {
        Some(v) => v,
        None => {
            eprintln!("input does not fail");
            return 3;
        }
    };
    let rule = first.rule.clone();
    // every candidate runs on a thread of its own: what an earlier candidate left in
    // thread-local storage must not keep a shrunk case failing (round 11)
    let mut runner = |c: &Case| {
        let c2 = c.clone();
        let r = exec::on_fresh_thread(Default::default(), move || {
            let mut s = Stats::default();
            run_case(&c2, &mut s)
        });
        if r.invalid {
            None
        } else {
            r.violation
        }
    };
    let mut m = minimize::Minimizer {
        run: &mut runner,
        budget: 3000,
        used: 0,
    };
    let small = m.minimize(&case, &rule);
    let used = m.used;
    let small2 = small.clone();
    let v = exec::on_fresh_thread(Default::default(), move || {
        let mut s = Stats::default();
        run_case(&small2, &mut s)
    })
    .violation
    .expect("minimised case fails");
    std::fs::write(outp, driver::replay_file(&small, &v, Some(used)).pretty()).expect("write");
    println!("minimised with {} executions, rule {}", used, v.rule);
    0
}

fn gen_cmd(args: &[String]) -> i32 {
    init_sim();
    if let Some(n) = arg(args, "--real-every") {
        REAL_EVERY.store(n.parse().expect("real-every"), std::sync::atomic::Ordering::Relaxed);
    }
    let prop = arg(args, "--prop").expect("--prop");
    let seed: u64 = arg(args, "--seed")
        .map(|s| s.parse().expect("seed"))
        .unwrap_or(DEFAULT_SEED);
    let run: u64 = arg(args, "--run").unwrap_or("0").parse().expect("run");
    let pass = Pass::parse(arg(args, "--pass").unwrap_or("clean"));
    let case = gen_case(prop, seed, run, pass);
    println!("{}", case.to_j().pretty());
    0
}

pub static DEBUG_TICKS: std::sync::atomic::AtomicBool = std::sync::atomic::AtomicBool::new(false);

fn main() {
    let _ = root();
    if std::env::var("SIM_DEBUG_TICKS").is_ok() {
        DEBUG_TICKS.store(true, std::sync::atomic::Ordering::Relaxed);
    }
    let args: Vec<String> = std::env::args().skip(1).collect();
    let code = match args.first().map(|s| s.as_str()) {
        Some("worker") => worker(&args[1..]),
        Some("replay") => replay(&args[1..]),
        Some("minimize") => minimize_cmd(&args[1..]),
        Some("gen") => gen_cmd(&args[1..]),
        Some("check") => driver::check(&args[1..]),
        _ => {
            eprintln!("usage: bpaf_sim worker|check|replay|minimize|gen ...");
            2
        }
    };
    std::process::exit(code);
}
