//! Cases (what a replay file holds), operations, and executing one operation against a real
//! bpaf parser inside the simulated world.
use crate::json::{self, jbytes, J};
use crate::shape::{build_opts, Opts};
use crate::val::Val;
use crate::world::{self, CbFault, InjectedPanic, StreamFault};
use bpaf::__verif::{SimExit, StepBudgetExceeded};
use bpaf::{Args, OptionParser, ParseFailure};
use std::cell::RefCell;
use std::ffi::OsString;
use std::os::unix::ffi::OsStringExt;
use std::panic::{catch_unwind, AssertUnwindSafe};

pub type Tok = Vec<u8>;

#[derive(Clone, Debug, PartialEq)]
pub enum Op {
    /// `run_inner` on live parser `p`
    Run {
        p: usize,
        argv: Vec<Tok>,
        name: Option<String>,
        /// `Args::set_comp(rev)`
        comp: Option<usize>,
        cb: Option<(u32, CbFault)>,
    },
    /// `run_inner`, then `ParseFailure::print_message(width)` on whatever failure came back
    Print {
        p: usize,
        argv: Vec<Tok>,
        name: Option<String>,
        width: usize,
    },
    /// documentation generation: 0 markdown, 1 html, 2 manpage
    Render {
        p: usize,
        what: u8,
        app: String,
        cb: Option<(u32, CbFault)>,
    },
    /// `check_invariants`
    Check { p: usize },
    SetEnv { name: Tok, val: Option<Tok> },
    NewParser { opts: Opts },
    /// a whole process: `OptionParser::run()` with this `argv` (including `argv[0]`) and streams
    Launch {
        p: usize,
        argv: Vec<Tok>,
        out_fault: StreamFault,
        err_fault: StreamFault,
        /// also spawn the unhooked executable as a real child process and compare
        real: bool,
    },
}

#[derive(Clone, Debug, PartialEq)]
pub struct Case {
    pub prop: String,
    pub seed: u64,
    pub run: u64,
    pub parsers: Vec<Opts>,
    pub env: Vec<(Tok, Tok)>,
    pub ops: Vec<Op>,
    /// T7 (position independence): after this case, run these, then this case once more; both
    /// executions of this case must observe the same thing
    pub interlude: Vec<Case>,
}

#[derive(Clone, Debug, PartialEq)]
pub enum Outcome {
    Value(Val),
    Stdout(String),
    Stderr(String),
    Completion(String),
    Text(String),
    Done,
    /// the injected callback panic came back out, as it should
    Injected(u32),
    // abnormal ---------------------------------------------------------------------------
    Panic(String),
    Exit(i32),
    Budget,
}

impl Outcome {
    pub fn class(&self) -> &'static str {
        match self {
            Outcome::Value(_) => "value",
            Outcome::Stdout(_) => "stdout",
            Outcome::Stderr(_) => "stderr",
            Outcome::Completion(_) => "completion",
            Outcome::Text(_) => "text",
            Outcome::Done => "done",
            Outcome::Injected(_) => "injected-panic",
            Outcome::Panic(_) => "PANIC",
            Outcome::Exit(_) => "EXIT",
            Outcome::Budget => "BUDGET",
        }
    }
    pub fn abnormal(&self) -> bool {
        matches!(self, Outcome::Panic(_) | Outcome::Exit(_) | Outcome::Budget)
    }
    pub fn to_j(&self) -> J {
        let (k, v): (&str, String) = match self {
            Outcome::Value(v) => ("value", format!("{:?}", v)),
            Outcome::Stdout(s) => ("stdout", s.clone()),
            Outcome::Stderr(s) => ("stderr", s.clone()),
            Outcome::Completion(s) => ("completion", s.clone()),
            Outcome::Text(s) => ("text", clip(s, 400)),
            Outcome::Done => ("done", String::new()),
            Outcome::Injected(k) => ("injected-panic", k.to_string()),
            Outcome::Panic(s) => ("PANIC", s.clone()),
            Outcome::Exit(c) => ("EXIT", c.to_string()),
            Outcome::Budget => ("BUDGET", String::new()),
        };
        J::obj(vec![("class", J::s(k)), ("data", J::s(clip(&v, 2000)))])
    }
}

pub fn clip(s: &str, n: usize) -> String {
    if s.len() <= n {
        s.to_string()
    } else {
        let mut k = n;
        while !s.is_char_boundary(k) {
            k -= 1;
        }
        format!("{}...[{} bytes]", &s[..k], s.len())
    }
}

/// what one execution of an operation did, as far as the seams can see
#[derive(Clone, Debug, PartialEq)]
pub struct Obs {
    pub outcome: Outcome,
    pub out: Vec<u8>,
    pub err: Vec<u8>,
    pub ticks: u64,
    pub env_reads: Vec<(Tok, bool)>,
    pub args_reads: u32,
    pub cb_calls: u32,
    pub cb_fail: u32,
    pub cb_panic: u32,
}

impl Obs {
    /// the part of an observation that the purity oracles compare
    pub fn same_result(&self, other: &Obs) -> bool {
        self.outcome == other.outcome && self.out == other.out && self.err == other.err
    }
}

thread_local! {
    static LAST_PANIC: RefCell<Option<String>> = RefCell::new(None);
    static VALIDATED: RefCell<std::collections::BTreeSet<u64>> = RefCell::new(std::collections::BTreeSet::new());
}

pub fn install_panic_hook() {
    std::panic::set_hook(Box::new(|info| {
        let msg = if let Some(s) = info.payload().downcast_ref::<&str>() {
            s.to_string()
        } else if let Some(s) = info.payload().downcast_ref::<String>() {
            s.clone()
        } else {
            "<non-string payload>".to_string()
        };
        let loc = info
            .location()
            .map(|l| format!("{}:{}", l.file(), l.line()))
            .unwrap_or_default();
        LAST_PANIC.with(|p| *p.borrow_mut() = Some(format!("{} @ {}", msg, loc)));
    }));
}

fn classify(payload: Box<dyn std::any::Any + Send>) -> Outcome {
    if let Some(p) = payload.downcast_ref::<InjectedPanic>() {
        return Outcome::Injected(p.0);
    }
    if let Some(p) = payload.downcast_ref::<SimExit>() {
        return Outcome::Exit(p.0);
    }
    if payload.downcast_ref::<StepBudgetExceeded>().is_some() {
        return Outcome::Budget;
    }
    let msg = LAST_PANIC
        .with(|p| p.borrow_mut().take())
        .unwrap_or_else(|| "<panic without hook message>".to_string());
    Outcome::Panic(msg)
}

pub fn os(v: &[Tok]) -> Vec<OsString> {
    v.iter().cloned().map(OsString::from_vec).collect()
}

/// bumped at the start of every executed operation; the worker's watchdog thread aborts the
/// process when it stops moving (a hang in code that never passes a tick)
pub static HEARTBEAT: std::sync::atomic::AtomicU64 = std::sync::atomic::AtomicU64::new(0);

/// Abort the process when no operation has started for `secs` seconds. Operations take micro- to
/// milliseconds, an exhausted step budget a few seconds; only a loop that never reaches a tick
/// can be silent that long. The driver attributes the death to the run in progress.
pub fn start_watchdog(secs: u64) {
    std::thread::spawn(move || {
        let mut last = HEARTBEAT.load(std::sync::atomic::Ordering::Relaxed);
        let mut idle = 0u64;
        loop {
            std::thread::sleep(std::time::Duration::from_secs(1));
            let now = HEARTBEAT.load(std::sync::atomic::Ordering::Relaxed);
            if now == last {
                idle += 1;
                if idle >= secs {
                    eprintln!("watchdog: no operation started for {} s, aborting", secs);
                    std::process::abort();
                }
            } else {
                idle = 0;
                last = now;
            }
        }
    });
}

fn arm(cb: Option<(u32, CbFault)>, budget: u64) {
    HEARTBEAT.fetch_add(1, std::sync::atomic::Ordering::Relaxed);
    world::with(|s| {
        s.reset_observations();
        s.budget = budget;
        s.cb.enabled = true;
        s.cb.fault = cb;
    });
}

fn disarm(outcome: Outcome) -> Obs {
    world::with(|s| {
        s.cb.enabled = false;
        s.cb.fault = None;
        s.budget = u64::MAX;
        Obs {
            outcome,
            out: s.out.offered.clone(),
            err: s.err.offered.clone(),
            ticks: s.ticks,
            env_reads: s.env_reads.clone(),
            args_reads: s.args_reads,
            cb_calls: s.cb.calls,
            cb_fail: s.cb.fired_fail,
            cb_panic: s.cb.fired_panic,
        }
    })
}

thread_local! {
    /// failures returned earlier in this run together with how they rendered at the time (T8)
    static PENDING: RefCell<Vec<(usize, ParseFailure, Outcome)>> = RefCell::new(Vec::new());
}

pub fn pending_clear() {
    PENDING.with(|p| p.borrow_mut().clear());
}

fn pending_push(op_hint: usize, f: &ParseFailure, o: &Outcome) {
    PENDING.with(|p| {
        let mut p = p.borrow_mut();
        if p.len() >= 6 {
            p.remove(0);
        }
        p.push((op_hint, f.clone(), o.clone()));
    });
}

/// T8: a `ParseFailure` is a value; rendering it later, after other parsers have run, must give
/// the text it gave when it was returned. Returns (sequence number of the stale failure, then,
/// now) for the first one that changed.
pub fn pending_recheck() -> Option<(usize, Outcome, Outcome)> {
    let items: Vec<(usize, ParseFailure, Outcome)> = PENDING.with(|p| p.borrow().clone());
    for (k, f, then) in items {
        let r = catch_unwind(AssertUnwindSafe(|| canon_failure(f.clone())));
        let now = match r {
            Ok(o) => o,
            Err(p) => classify(p),
        };
        if now != then {
            return Some((k, then, now));
        }
    }
    None
}

thread_local! {
    static FAILURE_SEQ: std::cell::Cell<usize> = std::cell::Cell::new(0);
}

pub fn canon_failure(f: ParseFailure) -> Outcome {
    match f {
        ParseFailure::Stdout(doc, full) => Outcome::Stdout(doc.monochrome(full)),
        ParseFailure::Completion(s) => Outcome::Completion(s),
        ParseFailure::Stderr(doc) => Outcome::Stderr(doc.monochrome(true)),
    }
}

/// execute `run_inner`
pub fn run_inner(
    parser: &OptionParser<Val>,
    argv: &[Tok],
    name: &Option<String>,
    comp: Option<usize>,
    cb: Option<(u32, CbFault)>,
    budget: u64,
) -> Obs {
    let items = os(argv);
    // the same vector reaches bpaf through each of the `From` conversions `Args` offers: as
    // OsStrings, and - when every item is text - as `&[String]` or `&[&str]`, chosen by content
    let texts: Option<Vec<String>> = argv
        .iter()
        .map(|a| String::from_utf8(a.clone()).ok())
        .collect();
    let strs: Option<Vec<&str>> = texts.as_ref().map(|t| t.iter().map(|s| s.as_str()).collect());
    let osrefs: Vec<&std::ffi::OsStr> = items.iter().map(|o| o.as_os_str()).collect();
    let flavour = argv.iter().map(|a| a.len()).sum::<usize>() % 4;
    arm(cb, budget);
    let r = catch_unwind(AssertUnwindSafe(|| {
        let mut args = match (flavour, &texts, &strs) {
            (1, Some(t), _) => Args::from(&t[..]),
            (2, _, Some(s)) => Args::from(&s[..]),
            (3, _, _) => Args::from(&osrefs[..]),
            _ => Args::from(&items[..]),
        };
        if let Some(n) = name {
            args = args.set_name(n);
        }
        if let Some(rev) = comp {
            args = args.set_comp(rev);
        }
        match parser.run_inner(args) {
            Ok(v) => Outcome::Value(v),
            Err(f) => {
                let o = canon_failure(f.clone());
                let k = FAILURE_SEQ.with(|c| {
                    c.set(c.get() + 1);
                    c.get()
                });
                pending_push(k, &f, &o);
                o
            }
        }
    }));
    let outcome = match r {
        Ok(o) => o,
        Err(p) => classify(p),
    };
    disarm(outcome)
}

/// `run_inner` followed by `print_message(width)`; what was printed ends up in `out`/`err`
pub fn run_and_print(
    parser: &OptionParser<Val>,
    argv: &[Tok],
    name: &Option<String>,
    width: usize,
    budget: u64,
) -> Obs {
    let items = os(argv);
    arm(None, budget);
    let r = catch_unwind(AssertUnwindSafe(|| {
        let mut args = Args::from(&items[..]);
        if let Some(n) = name {
            args = args.set_name(n);
        }
        match parser.run_inner(args) {
            Ok(v) => Outcome::Value(v),
            Err(f) => {
                let class = match &f {
                    ParseFailure::Stdout(..) => "printed-stdout",
                    ParseFailure::Completion(..) => "printed-completion",
                    ParseFailure::Stderr(..) => "printed-stderr",
                };
                f.print_message(width);
                Outcome::Text(class.to_string())
            }
        }
    }));
    let outcome = match r {
        Ok(o) => o,
        Err(p) => classify(p),
    };
    let mut obs = disarm(outcome);
    // the stdout tail that std would flush at exit belongs to what was printed
    world::with(|s| obs.out = s.out.offered.clone());
    obs
}

pub fn render(
    parser: &OptionParser<Val>,
    what: u8,
    app: &str,
    cb: Option<(u32, CbFault)>,
    budget: u64,
) -> Obs {
    arm(cb, budget);
    let r = catch_unwind(AssertUnwindSafe(|| {
        Outcome::Text(match what {
            0 => parser.render_markdown(app),
            1 => parser.render_html(app),
            _ => parser.render_manpage(
                app,
                bpaf::doc::Section::General,
                Some("2026-01-01"),
                Some("vendor"),
                Some("title"),
            ),
        })
    }));
    let outcome = match r {
        Ok(o) => o,
        Err(p) => classify(p),
    };
    disarm(outcome)
}

pub fn check_invariants(parser: &OptionParser<Val>, budget: u64) -> Obs {
    arm(None, budget);
    let r = catch_unwind(AssertUnwindSafe(|| {
        parser.check_invariants(false);
        Outcome::Done
    }));
    let outcome = match r {
        Ok(o) => o,
        Err(p) => classify(p),
    };
    let mut obs = disarm(outcome);
    // the debug dump written by check_invariants is large and of no interest
    obs.out = (obs.out.len() as u64).to_le_bytes().to_vec();
    obs
}

/// build a parser from its definition with all fault plans off; `None` when the definition is
/// rejected by `check_invariants` or cannot be built (documented usage errors)
pub fn build_checked(o: &Opts) -> Option<OptionParser<Val>> {
    // check_invariants pretty-prints the whole metadata tree every time it is called; a
    // definition that passed once in this thread is not checked again
    let key = {
        let mut h = crate::stats::Fnv::new();
        h.write_str(&format!("{:?}", o));
        h.finish()
    };
    let known = VALIDATED.with(|v| v.borrow().contains(&key));
    if known {
        return Some(build_unchecked(o));
    }
    world::with(|s| {
        s.cb.enabled = false;
        s.budget = u64::MAX;
        s.mute = true;
    });
    let r = catch_unwind(AssertUnwindSafe(|| {
        let p = build_opts(o);
        p.check_invariants(false);
        p
    }));
    world::with(|s| {
        s.mute = false;
        s.reset_observations()
    });
    LAST_PANIC.with(|p| p.borrow_mut().take());
    if r.is_ok() {
        VALIDATED.with(|v| {
            let mut v = v.borrow_mut();
            if v.len() > 20_000 {
                v.clear();
            }
            v.insert(key);
        });
    }
    r.ok()
}

pub fn build_unchecked(o: &Opts) -> OptionParser<Val> {
    world::with(|s| {
        s.cb.enabled = false;
        s.budget = u64::MAX;
    });
    build_opts(o)
}

/// what a simulated process launch looked like from outside
#[derive(Clone, Debug, PartialEq)]
pub struct ProcObs {
    pub stdout: Vec<u8>,
    pub stderr: Vec<u8>,
    /// exit status; 101 = the runtime's status for a panic
    pub status: i32,
    /// `Some(value)` iff `run()` returned to the program body
    pub body: Option<Val>,
    pub out_faults: u32,
    pub err_faults: u32,
    pub panic: Option<String>,
    pub ticks: u64,
}

pub const BODY_STATUS: i32 = 7;

/// run a whole simulated process: `parser.run()` then the program body
pub fn launch(
    opts: &Opts,
    argv: &[Tok],
    out_fault: &StreamFault,
    err_fault: &StreamFault,
    budget: u64,
) -> ProcObs {
    HEARTBEAT.fetch_add(1, std::sync::atomic::Ordering::Relaxed);
    world::with(|s| {
        s.reset_observations();
        s.budget = budget;
        s.cb.enabled = false;
        s.argv = argv.to_vec();
        s.out.fault = out_fault.clone();
        s.err.fault = err_fault.clone();
        s.bells = true;
    });
    let rest: &[Tok] = if argv.is_empty() { &[] } else { &argv[1..] };
    let entry = crate::shape::entry_for(opts, rest);
    let opts2 = opts.clone();
    let r = catch_unwind(AssertUnwindSafe(move || crate::shape::run_via(&opts2, entry)));
    world::with(|s| s.bells = false);
    let (status, body, panic) = match r {
        Ok(v) => (BODY_STATUS, Some(v), None),
        Err(p) => match classify(p) {
            Outcome::Exit(c) => (c, None, None),
            Outcome::Panic(m) => (101, None, Some(m)),
            Outcome::Budget => (101, None, Some("step budget exceeded".to_string())),
            other => (101, None, Some(format!("{:?}", other))),
        },
    };
    world::with(|s| {
        s.process_end();
        let o = ProcObs {
            stdout: s.out.delivered.clone(),
            stderr: s.err.delivered.clone(),
            status,
            body,
            out_faults: s.out.fired,
            err_faults: s.err.fired,
            panic,
            ticks: s.ticks,
        };
        s.budget = u64::MAX;
        s.out.fault = StreamFault::None;
        s.err.fault = StreamFault::None;
        s.argv.clear();
        o
    })
}

// ---------------------------------------------------------------------------------------------
// JSON

fn cb_to_j(cb: &Option<(u32, CbFault)>) -> J {
    match cb {
        None => J::Null,
        Some((k, f)) => J::obj(vec![
            ("at_call", J::Int(*k as i64)),
            (
                "kind",
                J::s(match f {
                    CbFault::Fail => "fail",
                    CbFault::Panic => "panic",
                }),
            ),
        ]),
    }
}
fn cb_from(j: Option<&J>) -> Result<Option<(u32, CbFault)>, String> {
    match j {
        None | Some(J::Null) => Ok(None),
        Some(j) => {
            let k = j.req("at_call")?.as_i64()? as u32;
            let f = match j.req("kind")?.as_str()? {
                "fail" => CbFault::Fail,
                "panic" => CbFault::Panic,
                o => return Err(format!("bad cb fault {}", o)),
            };
            Ok(Some((k, f)))
        }
    }
}
fn fault_to_j(f: &StreamFault) -> J {
    match f {
        StreamFault::None => J::Null,
        StreamFault::Closed => J::s("closed"),
        StreamFault::Tty => J::s("tty"),
        StreamFault::ErrAt { at, errno } => {
            J::obj(vec![("err_at", J::Int(*at as i64)), ("errno", J::s(*errno))])
        }
    }
}
fn fault_from(j: Option<&J>) -> Result<StreamFault, String> {
    match j {
        None | Some(J::Null) => Ok(StreamFault::None),
        Some(J::Str(s)) if s == "closed" => Ok(StreamFault::Closed),
        Some(J::Str(s)) if s == "tty" => Ok(StreamFault::Tty),
        Some(j) => Ok(StreamFault::ErrAt {
            at: j.req("err_at")?.as_i64()? as usize,
            errno: crate::shape::intern(j.req("errno")?.as_str()?),
        }),
    }
}
pub fn toks_to_j(v: &[Tok]) -> J {
    J::arr(v.iter(), |t| jbytes(t))
}
pub fn toks_from(j: &J) -> Result<Vec<Tok>, String> {
    j.as_arr()?
        .iter()
        .map(|x| json::str_to_bytes(x.as_str()?))
        .collect()
}

impl Op {
    pub fn kind(&self) -> &'static str {
        match self {
            Op::Run { comp: Some(_), .. } => "complete",
            Op::Run { .. } => "run",
            Op::Print { .. } => "print",
            Op::Render { what: 0, .. } => "markdown",
            Op::Render { what: 1, .. } => "html",
            Op::Render { .. } => "manpage",
            Op::Check { .. } => "check",
            Op::SetEnv { .. } => "setenv",
            Op::NewParser { .. } => "newparser",
            Op::Launch { .. } => "launch",
        }
    }
    pub fn to_j(&self) -> J {
        match self {
            Op::Run {
                p,
                argv,
                name,
                comp,
                cb,
            } => J::obj(vec![
                ("op", J::s("run_inner")),
                ("p", J::Int(*p as i64)),
                ("argv", toks_to_j(argv)),
                (
                    "name",
                    match name {
                        Some(n) => J::s(n.clone()),
                        None => J::Null,
                    },
                ),
                (
                    "set_comp",
                    match comp {
                        Some(c) => J::Int(*c as i64),
                        None => J::Null,
                    },
                ),
                ("callback_fault", cb_to_j(cb)),
            ]),
            Op::Print {
                p,
                argv,
                name,
                width,
            } => J::obj(vec![
                ("op", J::s("print_message")),
                ("p", J::Int(*p as i64)),
                ("argv", toks_to_j(argv)),
                (
                    "name",
                    match name {
                        Some(n) => J::s(n.clone()),
                        None => J::Null,
                    },
                ),
                ("width", J::s(width.to_string())),
            ]),
            Op::Render { p, what, app, cb } => J::obj(vec![
                ("op", J::s("render")),
                ("p", J::Int(*p as i64)),
                ("what", J::Int(*what as i64)),
                ("app", J::s(app.clone())),
                ("callback_fault", cb_to_j(cb)),
            ]),
            Op::Check { p } => J::obj(vec![("op", J::s("check_invariants")), ("p", J::Int(*p as i64))]),
            Op::SetEnv { name, val } => J::obj(vec![
                ("op", J::s("setenv")),
                ("name", jbytes(name)),
                (
                    "val",
                    match val {
                        Some(v) => jbytes(v),
                        None => J::Null,
                    },
                ),
            ]),
            Op::NewParser { opts } => J::obj(vec![("op", J::s("new_parser")), ("opts", opts.to_j())]),
            Op::Launch {
                p,
                argv,
                out_fault,
                err_fault,
                real,
            } => J::obj(vec![
                ("op", J::s("launch")),
                ("p", J::Int(*p as i64)),
                ("argv", toks_to_j(argv)),
                ("stdout_fault", fault_to_j(out_fault)),
                ("stderr_fault", fault_to_j(err_fault)),
                ("real_child", J::Bool(*real)),
            ]),
        }
    }
    pub fn from_j(j: &J) -> Result<Op, String> {
        let p = || -> Result<usize, String> { Ok(j.req("p")?.as_i64()? as usize) };
        Ok(match j.req("op")?.as_str()? {
            "run_inner" => Op::Run {
                p: p()?,
                argv: toks_from(j.req("argv")?)?,
                name: match j.get("name") {
                    None | Some(J::Null) => None,
                    Some(n) => Some(n.as_str()?.to_string()),
                },
                comp: match j.get("set_comp") {
                    None | Some(J::Null) => None,
                    Some(n) => Some(n.as_i64()? as usize),
                },
                cb: cb_from(j.get("callback_fault"))?,
            },
            "print_message" => Op::Print {
                p: p()?,
                argv: toks_from(j.req("argv")?)?,
                name: match j.get("name") {
                    None | Some(J::Null) => None,
                    Some(n) => Some(n.as_str()?.to_string()),
                },
                width: j.req("width")?.as_u64()? as usize,
            },
            "render" => Op::Render {
                p: p()?,
                what: j.req("what")?.as_i64()? as u8,
                app: j.req("app")?.as_str()?.to_string(),
                cb: cb_from(j.get("callback_fault"))?,
            },
            "check_invariants" => Op::Check { p: p()? },
            "setenv" => Op::SetEnv {
                name: json::str_to_bytes(j.req("name")?.as_str()?)?,
                val: match j.get("val") {
                    None | Some(J::Null) => None,
                    Some(v) => Some(json::str_to_bytes(v.as_str()?)?),
                },
            },
            "new_parser" => Op::NewParser {
                opts: Opts::from_j(j.req("opts")?)?,
            },
            "launch" => Op::Launch {
                p: p()?,
                argv: toks_from(j.req("argv")?)?,
                out_fault: fault_from(j.get("stdout_fault"))?,
                err_fault: fault_from(j.get("stderr_fault"))?,
                real: matches!(j.get("real_child"), Some(J::Bool(true))),
            },
            o => return Err(format!("bad op {}", o)),
        })
    }
}

impl Case {
    /// hash of what is executed (definitions, environment, operations), not of its provenance
    pub fn content_hash(&self) -> u64 {
        let mut c = self.clone();
        c.seed = 0;
        c.run = 0;
        let mut h = crate::stats::Fnv::new();
        h.write_str(&c.to_j().to_string());
        h.finish()
    }
    pub fn to_j(&self) -> J {
        J::obj(vec![
            ("property", J::s(self.prop.clone())),
            ("seed", J::s(self.seed.to_string())),
            ("run", J::Int(self.run as i64)),
            ("parsers", J::arr(self.parsers.iter(), |o| o.to_j())),
            (
                "env",
                J::Arr(
                    self.env
                        .iter()
                        .map(|(k, v)| J::Arr(vec![jbytes(k), jbytes(v)]))
                        .collect(),
                ),
            ),
            ("ops", J::arr(self.ops.iter(), |o| o.to_j())),
            (
                "then_run_these_and_repeat",
                J::arr(self.interlude.iter(), |c| c.to_j()),
            ),
        ])
    }
    pub fn from_j(j: &J) -> Result<Case, String> {
        Ok(Case {
            prop: j.req("property")?.as_str()?.to_string(),
            seed: j.req("seed")?.as_u64()?,
            run: j.req("run")?.as_i64()? as u64,
            parsers: j
                .req("parsers")?
                .as_arr()?
                .iter()
                .map(Opts::from_j)
                .collect::<Result<_, _>>()?,
            env: j
                .req("env")?
                .as_arr()?
                .iter()
                .map(|kv| {
                    let kv = kv.as_arr()?;
                    Ok((
                        json::str_to_bytes(kv[0].as_str()?)?,
                        json::str_to_bytes(kv[1].as_str()?)?,
                    ))
                })
                .collect::<Result<_, String>>()?,
            ops: j
                .req("ops")?
                .as_arr()?
                .iter()
                .map(Op::from_j)
                .collect::<Result<_, _>>()?,
            interlude: match j.get("then_run_these_and_repeat") {
                Some(J::Arr(xs)) => xs.iter().map(Case::from_j).collect::<Result<_, _>>()?,
                _ => Vec::new(),
            },
        })
    }
}

/// Run `f` on a brand new OS thread (joined at once, so nothing runs concurrently) with the
/// simulated world installed there and the given environment. Thread-local state that bpaf -
/// or anything it calls - may have left behind on the worker's main thread is absent there, so
/// a "fresh twin" executed this way is fresh in that respect too.
pub fn on_fresh_thread<R: Send + 'static>(
    env: std::collections::BTreeMap<Tok, Tok>,
    f: impl FnOnce() -> R + Send + 'static,
) -> R {
    let handle = std::thread::Builder::new()
        .stack_size(4 << 20)
        .spawn(move || {
            world::install();
            world::with(|s| s.env = env);
            f()
        })
        .expect("spawn twin thread");
    match handle.join() {
        Ok(r) => r,
        Err(p) => std::panic::resume_unwind(p),
    }
}
