//! Counters, probes and hashing shared by all checks.
use crate::json::J;
use std::collections::{BTreeMap, BTreeSet};

#[derive(Clone, Debug, Default)]
pub struct Stats {
    pub counters: BTreeMap<String, u64>,
    pub max: BTreeMap<String, u64>,
    /// distinct abstract states: (skeleton, op kind, env class, fault kind, outcome class) hashes
    pub states: BTreeSet<u64>,
}

impl Stats {
    pub fn bump(&mut self, key: &str) {
        *self.counters.entry(key.to_string()).or_insert(0) += 1;
    }
    pub fn add(&mut self, key: &str, n: u64) {
        *self.counters.entry(key.to_string()).or_insert(0) += n;
    }
    pub fn max(&mut self, key: &str, n: u64) {
        let e = self.max.entry(key.to_string()).or_insert(0);
        if n > *e {
            *e = n;
        }
    }
    pub fn get(&self, key: &str) -> u64 {
        self.counters.get(key).copied().unwrap_or(0)
    }
    pub fn state(&mut self, parts: &[&str]) {
        let mut h = Fnv::new();
        for p in parts {
            h.write(p.as_bytes());
            h.write(&[0]);
        }
        self.states.insert(h.finish());
    }
    pub fn merge(&mut self, other: &Stats) {
        for (k, v) in &other.counters {
            *self.counters.entry(k.clone()).or_insert(0) += v;
        }
        for (k, v) in &other.max {
            let e = self.max.entry(k.clone()).or_insert(0);
            if v > e {
                *e = *v;
            }
        }
        self.states.extend(other.states.iter().copied());
    }
    pub fn to_j(&self) -> J {
        J::obj(vec![
            (
                "counters",
                J::Obj(
                    self.counters
                        .iter()
                        .map(|(k, v)| (k.clone(), J::Int(*v as i64)))
                        .collect(),
                ),
            ),
            (
                "max",
                J::Obj(
                    self.max
                        .iter()
                        .map(|(k, v)| (k.clone(), J::Int(*v as i64)))
                        .collect(),
                ),
            ),
            (
                "states",
                J::Arr(self.states.iter().map(|s| J::s(format!("{:016x}", s))).collect()),
            ),
        ])
    }
    pub fn from_j(j: &J) -> Result<Stats, String> {
        let mut s = Stats::default();
        if let Some(J::Obj(kv)) = j.get("counters") {
            for (k, v) in kv {
                s.counters.insert(k.clone(), v.as_i64()? as u64);
            }
        }
        if let Some(J::Obj(kv)) = j.get("max") {
            for (k, v) in kv {
                s.max.insert(k.clone(), v.as_i64()? as u64);
            }
        }
        if let Some(J::Arr(xs)) = j.get("states") {
            for x in xs {
                s.states
                    .insert(u64::from_str_radix(x.as_str()?, 16).map_err(|e| e.to_string())?);
            }
        }
        Ok(s)
    }
}

/// FNV-1a, 64 bit
#[derive(Clone)]
pub struct Fnv(u64);

impl Fnv {
    pub fn new() -> Fnv {
        Fnv(0xcbf2_9ce4_8422_2325)
    }
    pub fn write(&mut self, b: &[u8]) {
        for x in b {
            self.0 ^= *x as u64;
            self.0 = self.0.wrapping_mul(0x0000_0100_0000_01B3);
        }
    }
    pub fn write_str(&mut self, s: &str) {
        self.write(s.as_bytes());
        self.write(&[0xff]);
    }
    pub fn write_u64(&mut self, v: u64) {
        self.write(&v.to_le_bytes());
    }
    pub fn finish(&self) -> u64 {
        self.0
    }
}

#[derive(Clone, Debug)]
pub struct Violation {
    /// oracle rule that failed, e.g. `T1`
    pub rule: String,
    pub op_index: usize,
    /// stable identification of what failed, used to match known findings
    pub key: String,
    pub detail: String,
}

/// result of executing one case
#[derive(Clone, Debug, Default)]
pub struct RunReport {
    pub violation: Option<Violation>,
    /// hash of everything observable in the run (outcomes, stream bytes), for determinism checks
    pub hash: u64,
    /// `Some(hash of the case)` when the run is non-trivial by the property's rule
    pub nontrivial: Option<u64>,
    pub invalid: bool,
    /// one line per observed operation, for reports
    pub trace: Vec<String>,
}
