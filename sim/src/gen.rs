//! Seeded generators: parser definitions that respect bpaf's documented usage rules, command
//! lines ("sentences" of a definition, mutated sentences, raw byte strings) and environments.
use crate::rng::Rng;
use crate::shape::*;

pub const SHORTS: &[char] = &['a', 'b', 'c', 'd', 'e', 'f', 'g', 'v', 'x', 'é', 'Z', '1'];
pub const LONGS: &[S] = &[
    "alpha", "beta", "gamma", "delta", "epsilon", "verbose", "file", "al", "alphabet", "é-long",
    "x-y", "num", "target-directory", "a-rather-long-option-name-that-goes-on", "alpha-beta",
];
pub const ENVS: &[S] = &[
    "BPAF_V_A", "BPAF_V_B", "BPAF_V_C", "BPAF_V_D", "BPAF_V_E", "BPAF_V_F",
];
/// names that look like declared ones (case, suffix, prefix) plus variables other libraries read
pub const LOOKALIKE_ENVS: &[S] = &[
    "bpaf_v_a", "BPAF_V_A_", "BPAF_V", "BPAF_V_AA", "ALPHA", "alpha", "BETA", "A", "B", "NO_COLOR",
    "FORCE_COLOR", "CLICOLOR", "CLICOLOR_FORCE", "TERM", "COLUMNS", "LINES", "HOME", "USER", "PATH",
    "COMP_LINE", "COMP_WORDS", "RUST_BACKTRACE", "LANG", "LC_ALL", "LC_CTYPE", "POSIXLY_CORRECT",
    "GETOPT_COMPATIBLE", "COLORTERM", "TERM_PROGRAM", "CI", "DEBUG", "RUST_LOG", "SHELL", "PWD",
    "TMPDIR", "EDITOR", "PAGER", "MANWIDTH", "XDG_CONFIG_HOME", "HOSTNAME", "LOGNAME", "TZ", "IFS",
    "BPAF_DEBUG", "BPAF_COMPLETE", "CARGO", "CARGO_PKG_NAME", "CARGO_PKG_VERSION", "_",
    "COMP_POINT", "COMP_CWORD", "COMP_TYPE", "BASH_VERSION", "ZSH_VERSION", "SHLVL", "OLDPWD",
];
/// every variable name any generator may use or touch, with its upper- and lower-case forms
pub fn all_env_names() -> Vec<&'static str> {
    static NAMES: std::sync::OnceLock<Vec<&'static str>> = std::sync::OnceLock::new();
    NAMES.get_or_init(compute_env_names).clone()
}

fn compute_env_names() -> Vec<&'static str> {
    let mut v: Vec<&'static str> = Vec::new();
    v.extend(ENVS.iter().copied());
    v.extend(["BPAF_V_G", "BPAF_V_H", "bpaf_v_i", "Bpaf_V_J", "bpaf_V_k2"].iter().copied());
    // names derived from declarable ones: other case, suffix, prefix
    let derived: Vec<&'static str> = v
        .iter()
        .flat_map(|n| {
            [
                crate::shape::intern(&n.to_uppercase()),
                crate::shape::intern(&n.to_lowercase()),
            ]
        })
        .collect();
    v.extend(derived);
    v.extend(LOOKALIKE_ENVS.iter().copied());
    v.sort_unstable();
    v.dedup();
    v
}
pub const METAVARS: &[S] = &[
    "A", "FILE", "N", "VAL", "X-Y", "É", "DIRECTORY", "A_LONG_METAVAR_NAME",
];
pub const CMDS: &[S] = &["cmd", "sub", "run", "x", "alpha", "é"];
pub const TEXTS: &[S] = &[
    "short help",
    "A longer help text that goes on for a while so that the console renderer has something to wrap when it meets the limit of one hundred columns.",
    "first line\n\nsecond paragraph with more words",
    " leading space keeps\n the line break",
    "",
    "unicode: é 世界 😀",
    "tab\there",
    "`code` and *stars* and <angle> & amp",
    "q&a b&w black&white &amp; &#8617; &x &# AT&T a&",
    "styled \u{1}literal\u{1} emphasis \u{1}META\u{1}bad",
    "é\nsecond line\u{1}x",
    "first\n\nsecond\u{1}世\u{1}\n\u{1}tail",
    "\u{1}\u{1}",

    "tail& &head mid&dle &;",

    "\nstarts with an empty line",
    "\n",
    "\r\nCRLF first\r\nand second",
    "intro\n\n```\nfenced code\n\nafter an empty line\n```\nouter text",
    "para\n\n    indented code\n    \n    after four blanks\n\nback",
    "# heading-like\n> quote-like\n- list-like\n.dot-first 'quote-first \\backslash",
    "   ",
    "averyveryveryveryveryveryveryveryveryveryveryveryveryveryveryveryveryveryveryveryveryveryveryveryverylongwordwithoutanybreakinit-and-it-goes-on-and-on",
    "trailing blank \n\n\n",
];
pub const MSGS: &[S] = &[
    "must be valid",
    "need at least one",
    "check failed",
    "ends with a newline\n",
    "ends with a blank ",
    "two\nlines\n\n",
];

/// per-run feature switches (swarm testing): each run enables a random subset
#[derive(Clone, Debug)]
pub struct Swarm {
    pub env: bool,
    pub cmds: bool,
    pub adjacent: bool,
    pub alts: bool,
    pub any: bool,
    pub callbacks: bool,
    pub complete: bool,
    pub docs: bool,
    pub unicode: bool,
    pub positionals: bool,
    /// parsers with `max_width` other than the default
    pub widths: bool,
    /// values with an audible destructor (C11 only: they ring on the simulated stdout)
    pub bells: bool,
    pub max_depth: usize,
}

impl Swarm {
    pub fn draw(r: &mut Rng) -> Swarm {
        Swarm {
            env: r.chance(3, 4),
            cmds: r.chance(2, 3),
            adjacent: r.chance(1, 2),
            alts: r.chance(2, 3),
            any: r.chance(1, 3),
            callbacks: r.chance(3, 4),
            complete: r.chance(1, 2),
            docs: r.chance(2, 3),
            unicode: r.chance(1, 3),
            positionals: r.chance(3, 4),
            widths: r.chance(1, 2),
            bells: false,
            max_depth: r.range(1, 4),
        }
    }
    pub fn all() -> Swarm {
        Swarm {
            env: true,
            cmds: true,
            adjacent: true,
            alts: true,
            any: true,
            callbacks: true,
            complete: true,
            docs: true,
            unicode: true,
            positionals: true,
            widths: true,
            bells: false,
            max_depth: 4,
        }
    }
}

pub struct Gen<'a> {
    pub r: &'a mut Rng,
    pub sw: Swarm,
    /// when set every named leaf gets an env var with this probability (x/8)
    pub env_bias: usize,
    /// inside an adjacent group: groups nest one level only - bpaf's search for a group costs
    /// about n^k evaluations for k nested levels on n items, which terminates but, with long
    /// lines, not within any sensible watchdog
    pub in_group: bool,
}

impl<'a> Gen<'a> {
    pub fn new(r: &'a mut Rng, sw: Swarm) -> Self {
        Gen { r, sw, env_bias: 2, in_group: false }
    }

    fn short(&mut self) -> char {
        loop {
            let c = *self.r.pick(SHORTS);
            if c.is_ascii() || self.sw.unicode {
                return c;
            }
        }
    }
    fn long(&mut self) -> S {
        loop {
            let l = *self.r.pick(LONGS);
            if l.is_ascii() || self.sw.unicode {
                return l;
            }
        }
    }
    fn text(&mut self) -> S {
        loop {
            let t = *self.r.pick(TEXTS);
            if t.is_ascii() || self.sw.unicode {
                return t;
            }
        }
    }
    fn opt_text(&mut self) -> Option<S> {
        if self.sw.docs && self.r.chance(1, 2) {
            Some(self.text())
        } else {
            None
        }
    }
    fn metavar(&mut self) -> S {
        loop {
            let t = *self.r.pick(METAVARS);
            if t.is_ascii() || self.sw.unicode {
                return t;
            }
        }
    }

    pub fn named(&mut self) -> Named {
        let mut n = Named::default();
        match self.r.below(8) {
            0..=2 => n.shorts.push(self.short()),
            3..=4 => n.longs.push(self.long()),
            5..=6 => {
                n.shorts.push(self.short());
                n.longs.push(self.long());
            }
            _ => {
                // aliases
                n.shorts.push(self.short());
                n.longs.push(self.long());
                if self.r.chance(1, 2) {
                    n.shorts.push(self.short());
                }
                if self.r.chance(1, 2) {
                    n.longs.push(self.long());
                }
            }
        }
        if self.sw.env && self.r.chance(self.env_bias, 8) {
            n.envs.push(*self.r.pick(ENVS));
            if self.r.chance(1, 4) {
                n.envs.push(*self.r.pick(ENVS));
            }
            // env-only item, no name at all
            if self.r.chance(1, 8) {
                n.shorts.clear();
                n.longs.clear();
            }
        }
        n.help = self.opt_text();
        n
    }

    fn ty(&mut self) -> Ty {
        match self.r.below(8) {
            0..=2 => Ty::Int,
            3..=5 => Ty::Str,
            6 => {
                if self.r.chance(1, 3) {
                    Ty::Path
                } else {
                    Ty::Os
                }
            }
            _ => {
                if self.sw.callbacks {
                    Ty::Num
                } else {
                    Ty::Int
                }
            }
        }
    }

    /// a named leaf: switch / flag / req_flag / argument
    pub fn named_leaf(&mut self) -> Shape {
        let named = self.named();
        match self.r.below(8) {
            0 => Shape::Switch(named),
            1 => Shape::Flag(named, 1, 0),
            2 => Shape::ReqFlag(named, 1),
            _ => {
                let adjacent = !named.shorts.is_empty() && self.r.chance(1, 10);
                Shape::Arg {
                    named,
                    metavar: self.metavar(),
                    ty: self.ty(),
                    adjacent,
                }
            }
        }
    }

    fn pos_leaf(&mut self, allow_strict: bool) -> Shape {
        if self.sw.any && self.r.chance(1, 5) {
            if self.r.chance(1, 2) {
                return Shape::Literal {
                    lit: *self.r.pick(&["lit", "+x", "-l", "--lit", "é"][..]),
                    anywhere: false,
                };
            }
            return Shape::Any {
                metavar: self.metavar(),
                anywhere: false,
                pred: self.r.below(4) as u8,
                help: self.opt_text(),
            };
        }
        Shape::Pos {
            metavar: self.metavar(),
            ty: self.ty(),
            strict: if allow_strict {
                *self.r.pick(&[0, 0, 0, 1, 2][..])
            } else {
                0
            },
            help: self.opt_text(),
        }
    }

    /// wrap an item into 0..3 wrappers
    fn wrap(&mut self, mut s: Shape, positional: bool) -> Shape {
        let n = match self.r.below(8) {
            0..=2 => 0,
            3..=5 => 1,
            6 => 2,
            _ => 3,
        };
        for _ in 0..n {
            let w = self.wrapper(positional);
            s = Shape::Wrap(w, Box::new(s));
        }
        s
    }

    fn wrapper(&mut self, _positional: bool) -> W {
        loop {
            let w = match self.r.below(22) {
                0 | 1 => W::Optional {
                    catch: self.r.chance(1, 4),
                },
                2 | 3 => W::Many {
                    catch: self.r.chance(1, 4),
                },
                4 => W::Some_ {
                    catch: self.r.chance(1, 4),
                    msg: *self.r.pick(MSGS),
                },
                5 => W::Collect {
                    catch: self.r.chance(1, 4),
                },
                6 => W::Count,
                7 => W::Last,
                8 if self.sw.bells && self.r.chance(1, 2) => W::FallbackBell,
                8 | 9 => W::Fallback {
                    val: *self.r.pick(&[0i64, 5, 13, 42][..]),
                    display: self.r.below(4) as u8,
                },
                10 if self.sw.callbacks => W::FallbackWith {
                    kind: *self.r.pick(&[0u8, 0, 0, 1][..]),
                    display: self.r.below(4) as u8,
                },
                11 if self.sw.callbacks => W::Guard {
                    kind: self.r.below(3) as u8,
                    msg: *self.r.pick(MSGS),
                },
                12 if self.sw.callbacks => W::Parse {
                    kind: self.r.below(2) as u8,
                },
                13 if self.sw.callbacks => W::Map {
                    tag: self.r.below(5) as u32,
                },
                14 => W::Hide,
                15 => W::HideUsage,
                16 if self.sw.docs => W::CustomUsage(self.text()),
                17 if self.sw.docs => W::GroupHelp(self.text()),
                18 if self.sw.docs && self.sw.callbacks => W::WithGroupHelp(self.text()),
                19 if self.sw.complete && self.sw.callbacks => W::Complete {
                    kind: self.r.below(6) as u8,
                    group: if self.r.chance(1, 3) {
                        Some(self.text())
                    } else {
                        None
                    },
                },
                20 if self.sw.complete => W::CompleteShell {
                    kind: self.r.below(5) as u8,
                },
                21 => W::Boxed,
                _ => continue,
            };
            return w;
        }
    }

    /// an adjacent group: starts with a required named item
    fn adjacent_group(&mut self, depth: usize) -> Shape {
        let mut first_named = self.named();
        if first_named.shorts.is_empty() && first_named.longs.is_empty() {
            first_named.longs.push(self.long());
        }
        first_named.envs.clear();
        let first = if self.r.chance(1, 2) {
            Shape::ReqFlag(first_named, 1)
        } else {
            Shape::Arg {
                named: first_named,
                metavar: self.metavar(),
                ty: self.ty(),
                adjacent: false,
            }
        };
        // one group in twelve breaks the rule that a group starts with a required named item
        // (a choice, a hidden item or a constant in front): `check_invariants` is the judge of
        // whether such a definition is in the corpus
        let first = if self.r.chance(1, 12) {
            match self.r.below(3) {
                0 => {
                    let other = self.named_leaf();
                    Shape::Alt(vec![first, other])
                }
                1 => Shape::Wrap(W::Hide, Box::new(first)),
                _ => Shape::Pure(3),
            }
        } else {
            first
        };
        let mut fields = vec![first];
        let extra = self.r.range(1, 3);
        let mut pos_started = false;
        for _ in 0..extra {
            if !pos_started && !self.in_group && depth < self.sw.max_depth && self.r.chance(1, 5) {
                // a group of its own inside the group (plain, optional or repeated)
                self.in_group = true;
                let nested = self.adjacent_group(depth + 1);
                self.in_group = false;
                fields.push(nested);
            } else if !pos_started && self.r.chance(1, 2) {
                let leaf = self.named_leaf();
                fields.push(self.wrap_light(leaf));
            } else {
                pos_started = true;
                fields.push(self.pos_leaf(false));
            }
        }
        let g = Shape::Seq(fields, true);
        let _ = depth;
        // a documented section around the whole block (its members may carry one as well)
        let g = if self.sw.docs && self.r.chance(1, 6) {
            Shape::Wrap(W::GroupHelp(self.text()), Box::new(g))
        } else {
            g
        };
        match self.r.below(4) {
            0 => g,
            1 => Shape::Wrap(W::Optional { catch: false }, Box::new(g)),
            _ => Shape::Wrap(
                W::Many {
                    catch: self.r.chance(1, 6),
                },
                Box::new(g),
            ),
        }
    }

    fn wrap_light(&mut self, s: Shape) -> Shape {
        if self.sw.docs && self.r.chance(1, 8) {
            return Shape::Wrap(W::GroupHelp(self.text()), Box::new(s));
        }
        match self.r.below(4) {
            0 => Shape::Wrap(W::Optional { catch: false }, Box::new(s)),
            1 => Shape::Wrap(
                W::Fallback {
                    val: 5,
                    display: 0,
                },
                Box::new(s),
            ),
            _ => s,
        }
    }

    /// a non-positional field of a sequence
    fn named_field(&mut self, depth: usize) -> Shape {
        let roll = self.r.below(16);
        if depth < self.sw.max_depth {
            if roll == 0 && self.sw.alts {
                // alternative between named things
                let n = self.r.range(2, 4);
                let alts = (0..n)
                    .map(|_| {
                        if self.r.chance(1, 4) {
                            self.named_seq(depth + 1)
                        } else {
                            let l = self.named_leaf();
                            self.wrap(l, false)
                        }
                    })
                    .collect();
                let a = Shape::Alt(alts);
                return self.wrap(a, false);
            }
            if roll == 1 {
                // nested group of named things
                let g = self.named_seq(depth + 1);
                return self.wrap(g, false);
            }
            if roll == 2 && self.sw.adjacent {
                return self.adjacent_group(depth + 1);
            }
        }
        if roll == 3 {
            let p = match self.r.below(4) {
                0 => Shape::Pure(7),
                1 if self.sw.callbacks => Shape::PureWith(*self.r.pick(&[0u8, 0, 1][..])),
                2 => Shape::Fail(*self.r.pick(MSGS)),
                _ => Shape::Pure(0),
            };
            return self.wrap(p, false);
        }
        if roll == 5 && self.r.chance(1, 2) {
            let b = Shape::Battery(*self.r.pick(&[0u8, 1, 2, 0, 1, 2, 3, 4][..]));
            return self.wrap(b, false);
        }
        if roll == 4 && self.sw.any {
            let a = if self.r.chance(1, 2) {
                Shape::Any {
                    metavar: self.metavar(),
                    anywhere: true,
                    pred: *self.r.pick(&[1u8, 1, 2, 3][..]),
                    help: self.opt_text(),
                }
            } else {
                Shape::Literal {
                    lit: *self.r.pick(&["+x", "--lit", "-l", "lit"][..]),
                    anywhere: true,
                }
            };
            return self.wrap(a, false);
        }
        let l = self.named_leaf();
        self.wrap(l, false)
    }

    fn named_seq(&mut self, depth: usize) -> Shape {
        let n = self.r.range(1, 3);
        let fields = (0..n).map(|_| self.named_field(depth)).collect();
        Shape::Seq(fields, false)
    }

    fn command(&mut self, depth: usize, name: S) -> Shape {
        let opts = self.opts_at(depth + 1);
        Shape::Cmd {
            name,
            // up to three short and two long aliases, the two lists of different lengths
            shorts: if self.r.chance(1, 3) {
                let n = *self.r.pick(&[1usize, 1, 1, 2, 3][..]);
                let mut v: Vec<char> = Vec::new();
                for _ in 0..n {
                    let c = self.short();
                    if !v.contains(&c) {
                        v.push(c);
                    }
                }
                v
            } else {
                vec![]
            },
            longs: if self.r.chance(1, 4) {
                let n = *self.r.pick(&[1usize, 1, 2][..]);
                (0..n).map(|_| *self.r.pick(CMDS)).collect()
            } else {
                vec![]
            },
            help: self.opt_text(),
            adjacent: self.sw.adjacent && self.r.chance(1, 5),
            opts: Box::new(opts),
        }
    }

    /// the root parser of an OptionParser at a given command depth
    pub fn root(&mut self, depth: usize) -> Shape {
        // occasionally: degenerate roots
        match self.r.below(24) {
            0 => return Shape::Seq(vec![], false),
            1 => return Shape::Pure(1),
            2 => {
                let l = self.named_leaf();
                return self.wrap(l, false);
            }
            _ => {}
        }
        let mut fields = Vec::new();
        // one command level in twenty breaks the rule that positional items come last; whether
        // such a definition is in the corpus is for `check_invariants` to say
        if depth > 0 && self.sw.positionals && self.r.chance(1, 20) {
            fields.push(self.pos_leaf(false));
        }
        let n_named = self.r.range(0, 4);
        for _ in 0..n_named {
            fields.push(self.named_field(depth));
        }
        // positional tail
        if self.sw.positionals {
            let n_pos = *self.r.pick(&[0usize, 0, 1, 1, 2][..]);
            for i in 0..n_pos {
                let p = self.pos_leaf(true);
                // a choice between positionals (`construct!([file, url])`)
                let p = if self.sw.alts && self.r.chance(1, 6) {
                    let q = self.pos_leaf(true);
                    Shape::Alt(vec![p, q])
                } else {
                    p
                };
                let last = i + 1 == n_pos;
                let p = if last || self.r.chance(1, 3) {
                    self.wrap(p, true)
                } else {
                    p
                };
                fields.push(p);
            }
        }
        // commands at the very end
        if self.sw.cmds && depth < 3 && depth < self.sw.max_depth && self.r.chance(1, 2) {
            let n = self.r.range(1, 3);
            let mut names: Vec<S> = Vec::new();
            for _ in 0..n {
                let c = loop {
                    let c = *self.r.pick(CMDS);
                    if c.is_ascii() || self.sw.unicode {
                        break c;
                    }
                };
                if !names.contains(&c) || self.r.chance(1, 8) {
                    names.push(c);
                }
            }
            let mut cmds: Vec<Shape> = names.into_iter().map(|c| self.command(depth, c)).collect();
            // the "external subcommand" idiom: a last alternative that takes any other word
            // and everything after it
            if self.sw.any && self.sw.alts && self.r.chance(1, 6) {
                cmds.push(Shape::Seq(
                    vec![
                        Shape::Pos {
                            metavar: "EXTERNAL",
                            ty: Ty::Str,
                            strict: 0,
                            help: None,
                        },
                        Shape::Wrap(
                            W::Many { catch: false },
                            Box::new(Shape::Any {
                                metavar: "REST",
                                anywhere: false,
                                pred: 0,
                                help: None,
                            }),
                        ),
                    ],
                    false,
                ));
            }
            let c = if cmds.len() == 1 && self.r.chance(1, 2) {
                cmds.pop().unwrap()
            } else {
                Shape::Alt(cmds)
            };
            let c = match self.r.below(7) {
                6 => Shape::Wrap(W::Hide, Box::new(c)),
                0 => Shape::Wrap(W::Optional { catch: false }, Box::new(c)),
                1 => Shape::Wrap(W::Many { catch: false }, Box::new(c)),
                2 => Shape::Wrap(
                    W::Fallback {
                        val: 0,
                        display: 0,
                    },
                    Box::new(c),
                ),
                _ => c,
            };
            fields.push(c);
        }
        if fields.len() > 6 {
            fields.truncate(6);
        }
        if fields.len() == 1 && self.r.chance(1, 2) {
            return fields.pop().unwrap();
        }
        Shape::Seq(fields, false)
    }

    pub fn opts_at(&mut self, depth: usize) -> Opts {
        let root = self.root(depth);
        let mut o = Opts::plain(root);
        if self.sw.docs {
            o.descr = self.opt_text();
            o.header = self.opt_text();
            o.footer = self.opt_text();
            if self.r.chance(1, 6) {
                o.usage = Some(self.text());
            } else if self.r.chance(1, 6) {
                o.with_usage = true;
            }
        }
        if self.r.chance(1, 2) {
            o.version = Some(*self.r.pick(&["1.2.3", "", "v é", "line1\nline2"][..]));
        }
        if self.r.chance(1, 8) {
            o.help_names = Some(Named {
                shorts: vec![*self.r.pick(&['?', 'h', 'H'][..])],
                longs: vec![*self.r.pick(&["halp", "help"][..])],
                envs: vec![],
                help: self.opt_text(),
            });
        }
        if self.r.chance(1, 8) {
            o.version_names = Some(Named {
                shorts: vec![*self.r.pick(&['v', 'V'][..])],
                longs: vec![],
                envs: vec![],
                help: None,
            });
        }
        o.fallback_to_usage = self.r.chance(1, 6);
        if self.r.chance(1, 16) {
            o.cargo = Some(*self.r.pick(&["cmd", "tool"][..]));
        }
        if self.sw.widths && self.r.chance(1, 3) {
            o.max_width = Some(*self.r.pick(&[20usize, 40, 60, 99, 120, 1000][..]));
        }
        o
    }

    pub fn opts(&mut self) -> Opts {
        self.opts_at(0)
    }
}

// ---------------------------------------------------------------------------------------------
// command lines

pub type Tok = Vec<u8>;

fn t(s: &str) -> Tok {
    s.as_bytes().to_vec()
}

pub fn value_for(r: &mut Rng, ty: Ty, hostile: bool) -> Tok {
    let ints: &[&str] = &["1", "42", "7", "0", "-7", "13", "99", "100000"];
    let strs: &[&str] = &["foo", "bar", "bad", "oops", "a b", "x=y", "é世", "lit", "cmd"];
    if hostile && r.chance(1, 4) {
        return r
            .pick(&[
                t(""),
                t("x"),
                t("-"),
                t("--"),
                t("-x"),
                t("--alpha"),
                vec![0xff, 0xfe],
                vec![b'a', 0x80],
                t("99999999999999999999"),
                t("1.5"),
                t(" 1"),
                t("=1"),
            ][..])
            .clone();
    }
    match ty {
        Ty::Int | Ty::Num => t(*r.pick(ints)),
        Ty::Str => t(*r.pick(strs)),
        Ty::Os | Ty::Path => {
            if r.chance(1, 3) {
                vec![b'o', 0xff, b's']
            } else {
                t(*r.pick(strs))
            }
        }
    }
}

/// ways of writing one occurrence of a named item
pub fn spell(r: &mut Rng, n: &Named, val: Option<Tok>) -> Vec<Tok> {
    let use_short = !n.shorts.is_empty() && (n.longs.is_empty() || r.chance(1, 2));
    if n.shorts.is_empty() && n.longs.is_empty() {
        return vec![];
    }
    if use_short {
        let c = *r.pick(&n.shorts);
        let mut flag = t("-");
        let mut tmp = [0u8; 4];
        flag.extend_from_slice(c.encode_utf8(&mut tmp).as_bytes());
        match val {
            None => vec![flag],
            Some(v) => match r.below(4) {
                0 => {
                    flag.extend_from_slice(&v);
                    vec![flag]
                }
                1 => {
                    flag.push(b'=');
                    flag.extend_from_slice(&v);
                    vec![flag]
                }
                _ => vec![flag, v],
            },
        }
    } else {
        let l = *r.pick(&n.longs);
        let mut flag = t("--");
        flag.extend_from_slice(l.as_bytes());
        match val {
            None => vec![flag],
            Some(v) => {
                if r.chance(1, 2) {
                    flag.push(b'=');
                    flag.extend_from_slice(&v);
                    vec![flag]
                } else {
                    vec![flag, v]
                }
            }
        }
    }
}

pub struct Sentence {
    /// groups of tokens that may be permuted among themselves
    pub named: Vec<Vec<Tok>>,
    /// positional tail, order matters
    pub pos: Vec<Tok>,
}

impl Sentence {
    pub fn flatten(self, r: &mut Rng, shuffle: bool) -> Vec<Tok> {
        let mut groups = self.named;
        if shuffle {
            for i in (1..groups.len()).rev() {
                let j = r.below(i + 1);
                groups.swap(i, j);
            }
        }
        let mut out: Vec<Tok> = groups.into_iter().flatten().collect();
        out.extend(self.pos);
        out
    }
}

/// emit tokens a user might type for this definition
pub fn sentence(r: &mut Rng, s: &Shape, hostile: bool, out: &mut Sentence) {
    match s {
        Shape::Switch(n) | Shape::Flag(n, _, _) => {
            if r.chance(1, 2) {
                let v = spell(r, n, None);
                if !v.is_empty() {
                    out.named.push(v);
                }
            }
        }
        Shape::ReqFlag(n, _) => {
            if r.chance(7, 8) {
                let v = spell(r, n, None);
                if !v.is_empty() {
                    out.named.push(v);
                }
            }
        }
        Shape::Arg {
            named, ty, adjacent, ..
        } => {
            if r.chance(7, 8) {
                let val = value_for(r, *ty, hostile);
                let mut v = spell(r, named, Some(val));
                if *adjacent && v.len() == 2 && r.chance(3, 4) {
                    // adjacent arguments want `-fVAL` / `--flag=VAL`
                    let val = v.pop().unwrap();
                    let mut f = v.pop().unwrap();
                    if f.starts_with(b"--") {
                        f.push(b'=');
                    }
                    f.extend_from_slice(&val);
                    v.push(f);
                }
                if !v.is_empty() {
                    out.named.push(v);
                }
            }
        }
        Shape::Pos { ty, .. } => {
            if r.chance(7, 8) {
                out.pos.push(value_for(r, *ty, hostile));
            }
        }
        Shape::Any { anywhere, pred, .. } => {
            if r.chance(3, 4) {
                let tok = match pred {
                    1 => t("+plus"),
                    2 => t("word"),
                    _ => r.pick(&[t("anything"), t("-q"), t("--what")][..]).clone(),
                };
                if *anywhere {
                    out.named.push(vec![tok]);
                } else {
                    out.pos.push(tok);
                }
            }
        }
        Shape::Literal { lit, anywhere } => {
            if r.chance(3, 4) {
                if *anywhere {
                    out.named.push(vec![t(lit)]);
                } else {
                    out.pos.push(t(lit));
                }
            }
        }
        Shape::Pure(_) | Shape::PureWith(_) | Shape::Fail(_) => {}
        Shape::Battery(kind) => {
            let toks: &[&str] = match kind {
                0 | 1 | 3 | 4 => &["-v", "-q", "--verbose", "--quiet", "-vv", "-vq"],
                _ => &["--on", "--off"],
            };
            let n = *r.pick(&[0usize, 1, 2, 4][..]);
            for _ in 0..n {
                out.named.push(vec![t(*r.pick(toks))]);
            }
        }
        Shape::Cmd {
            name,
            shorts,
            longs,
            opts,
            ..
        } => {
            if r.chance(7, 8) {
                let mut names: Vec<Tok> = vec![t(name)];
                names.extend(longs.iter().map(|l| t(l)));
                names.extend(shorts.iter().map(|c| t(&c.to_string())));
                out.pos.push(r.pick(&names).clone());
                let mut inner = Sentence {
                    named: vec![],
                    pos: vec![],
                };
                sentence(r, &opts.root, hostile, &mut inner);
                out.pos.extend(inner.flatten(r, true));
            }
        }
        Shape::Wrap(w, inner) => match w {
            W::Optional { .. } | W::Fallback { .. } | W::FallbackWith { .. } => {
                if r.chance(1, 2) {
                    sentence(r, inner, hostile, out);
                }
            }
            W::Many { .. } | W::Some_ { .. } | W::Collect { .. } | W::Count | W::Last => {
                let n = *r.pick(&[0usize, 1, 1, 2, 3][..]);
                for _ in 0..n {
                    sentence(r, inner, hostile, out);
                }
            }
            _ => sentence(r, inner, hostile, out),
        },
        Shape::Seq(fields, adjacent) => {
            if *adjacent && r.chance(1, 8) {
                // a disturbed block: members out of order, stray words in between (what a nested
                // group then sees to the left of its parent's first item)
                let mut parts: Vec<Vec<Tok>> = Vec::new();
                for f in fields {
                    let mut one = Sentence {
                        named: vec![],
                        pos: vec![],
                    };
                    sentence(r, f, hostile, &mut one);
                    let toks = one.flatten(r, false);
                    if !toks.is_empty() {
                        parts.push(toks);
                    }
                }
                if parts.len() > 1 {
                    let k = r.range(1, parts.len() - 1);
                    parts.rotate_left(k);
                }
                let mut toks: Vec<Tok> = Vec::new();
                for part in parts {
                    toks.extend(part);
                    for _ in 0..*r.pick(&[0usize, 0, 1, 2, 3][..]) {
                        toks.push(t(*r.pick(&["zzz", "1", "x", "-"][..])));
                    }
                }
                if !toks.is_empty() {
                    out.named.push(toks);
                }
            } else if *adjacent {
                // keep the block contiguous and in order
                let mut block = Sentence {
                    named: vec![],
                    pos: vec![],
                };
                for f in fields {
                    sentence(r, f, hostile, &mut block);
                }
                let toks = block.flatten(r, false);
                if !toks.is_empty() {
                    out.named.push(toks);
                }
            } else {
                for f in fields {
                    sentence(r, f, hostile, out);
                }
            }
        }
        Shape::Alt(alts) => {
            if alts.is_empty() {
                return;
            }
            let i = r.below(alts.len());
            sentence(r, &alts[i], hostile, out);
            // sometimes a second, conflicting branch
            if r.chance(1, 6) {
                let j = r.below(alts.len());
                sentence(r, &alts[j], hostile, out);
            }
        }
    }
}

pub fn raw_pool() -> Vec<Tok> {
    let mut v: Vec<Tok> = [
        "", "-", "--", "=", "-=", "--=x", "---", "-a", "-b", "-ab", "-abc", "--alpha", "--alph",
        "--bet", "--alpha=", "--alpha=1", "-a=", "-a=1", "-b1", "--beta", "-é", "-é=v", "-év", "--é-long",
        "--é-long=é", " ", "a b", "\n", "--help", "-h", "--version", "-V", "cmd", "sub", "-vvv",
        "--no-such-flag", "-?", "+x", "lit", "1", "x", "--bpaf-complete-rev=0", "--bpaf-complete-rev=x",
        "--bpaf-complete-rev=", "99999999999999999999", "-1", "--1", "-=-", "--=", "=x", "-a=-b", "-ba",
        "--verbose", "--verbos",
    ]
    .iter()
    .map(|s| t(s))
    .collect();
    v.push(vec![0xff]);
    v.push(vec![b'-', 0xff]);
    v.push(vec![b'-', b'-', 0xff, 0xfe]);
    v.push(vec![b'-', b'a', 0xff]);
    v.push(vec![b'-', b'a', b'=', 0xff]);
    v.push(vec![b'-', b'-', b'a', b'l', b'p', b'h', b'a', b'=', 0xc3]);
    v.push(vec![0xed, 0xa0, 0x80]);
    v
}

pub fn long_cluster(r: &mut Rng) -> Tok {
    let mut v = vec![b'-'];
    let letters = [b'v', b'a', b'b', b'x', b'1'];
    let n = r.range(100, 300);
    let mixed = r.chance(1, 3);
    let first = *r.pick(&letters[..]);
    for _ in 0..n {
        v.push(if mixed { *r.pick(&letters[..]) } else { first });
    }
    v
}

/// how a command line is produced for a definition
#[derive(Clone, Copy, Debug, PartialEq, Eq)]
pub enum ArgvKind {
    Sentence,
    Mutated,
    Raw,
    Cluster,
    Empty,
    /// hundreds of items: one word of a sentence repeated
    Long,
}

pub fn help_tokens(o: &Opts) -> Vec<Tok> {
    let mut v = Vec::new();
    match &o.help_names {
        None => {
            v.push(t("--help"));
            v.push(t("-h"));
        }
        Some(n) => v.extend(all_spellings(n)),
    }
    if o.version.is_some() {
        match &o.version_names {
            None => {
                v.push(t("--version"));
                v.push(t("-V"));
            }
            Some(n) => v.extend(all_spellings(n)),
        }
    }
    v
}

pub fn all_spellings(n: &Named) -> Vec<Tok> {
    let mut v = Vec::new();
    for c in &n.shorts {
        v.push(t(&format!("-{}", c)));
    }
    for l in &n.longs {
        v.push(t(&format!("--{}", l)));
    }
    v
}

pub fn argv(r: &mut Rng, o: &Opts) -> (ArgvKind, Vec<Tok>) {
    let kind = match r.below(34) {
        0..=11 => ArgvKind::Sentence,
        12..=23 => ArgvKind::Mutated,
        24..=27 => ArgvKind::Raw,
        28..=29 => ArgvKind::Cluster,
        30..=31 => ArgvKind::Empty,
        _ => ArgvKind::Long,
    };
    let v = match kind {
        ArgvKind::Empty => vec![],
        ArgvKind::Raw => {
            let pool = raw_pool();
            let n = r.range(1, 6);
            (0..n).map(|_| r.pick(&pool).clone()).collect()
        }
        ArgvKind::Cluster => {
            let mut s = base_sentence(r, o, false);
            let at = r.below(s.len() + 1);
            s.insert(at, long_cluster(r));
            s
        }
        ArgvKind::Sentence => base_sentence(r, o, false),
        ArgvKind::Long => {
            let mut s = base_sentence(r, o, false);
            let word = if s.is_empty() || r.chance(1, 4) {
                r.pick(&[t("word"), t("-v"), t("--alpha"), t("1"), t("")][..]).clone()
            } else {
                s[r.below(s.len())].clone()
            };
            let at = r.below(s.len() + 1);
            let n = r.range(50, 400);
            for _ in 0..n {
                s.insert(at, word.clone());
            }
            return (kind, s);
        }
        ArgvKind::Mutated => {
            let hostile = r.chance(1, 2);
            let mut s = base_sentence(r, o, hostile);
            mutate(r, o, &mut s);
            s
        }
    };
    let mut v = v;
    v.truncate(16);
    (kind, v)
}

pub fn base_sentence(r: &mut Rng, o: &Opts, hostile: bool) -> Vec<Tok> {
    let mut s = Sentence {
        named: vec![],
        pos: vec![],
    };
    sentence(r, &o.root, hostile, &mut s);
    if let Some(c) = o.cargo {
        if r.chance(1, 2) {
            // `cargo tool ...` passes the subcommand name first
            let mut v = vec![t(c)];
            let pos = std::mem::take(&mut s.pos);
            v.extend(s.flatten(r, true));
            v.extend(pos);
            return v;
        }
    }
    let dd = !s.pos.is_empty() && r.chance(1, 6);
    let pos = std::mem::take(&mut s.pos);
    let mut v = s.flatten(r, true);
    if dd {
        v.push(t("--"));
    }
    v.extend(pos);
    v
}

pub fn mutate(r: &mut Rng, o: &Opts, s: &mut Vec<Tok>) {
    let pool = raw_pool();
    let n = r.range(1, 3);
    for _ in 0..n {
        match r.below(10) {
            0 if !s.is_empty() => {
                let i = r.below(s.len());
                s.remove(i);
            }
            1 if !s.is_empty() => {
                let i = r.below(s.len());
                let x = s[i].clone();
                let j = r.below(s.len() + 1);
                s.insert(j, x);
            }
            2 => {
                let j = r.below(s.len() + 1);
                s.insert(j, r.pick(&pool).clone());
            }
            3 if !s.is_empty() => {
                let i = r.below(s.len());
                s[i] = r.pick(&pool).clone();
            }
            4 if s.len() > 1 => {
                let i = r.below(s.len());
                let j = r.below(s.len());
                s.swap(i, j);
            }
            5 => {
                // ask for help/version somewhere
                let h = help_tokens(o);
                let j = r.below(s.len() + 1);
                s.insert(j, r.pick(&h).clone());
            }
            6 if !s.is_empty() => {
                // chop a token
                let i = r.below(s.len());
                let l = s[i].len();
                if l > 0 {
                    let k = r.below(l);
                    s[i].truncate(k);
                }
            }
            7 => {
                let j = r.below(s.len() + 1);
                s.insert(j, t("--"));
            }
            8 => {
                // a long name mistyped with a multi-byte first character: an em dash pasted
                // for `--`, an accented letter in front
                let mut longs: Vec<S> = Vec::new();
                o.root.walk(&mut |n| {
                    if let Some(named) = n.named() {
                        longs.extend(named.longs.iter().copied());
                    }
                });
                longs.push("help");
                let l = *r.pick(&longs);
                let w = match r.below(3) {
                    0 => format!("\u{2014}{}", l),
                    1 => format!("\u{e9}-{}", l),
                    _ => format!("\u{2014}-{}", l),
                };
                let j = r.below(s.len() + 1);
                s.insert(j, t(&w));
            }
            _ => {
                let k = r.below(s.len() + 1);
                s.truncate(k);
            }
        }
    }
}

/// a command line as the shell stubs would send it for completion: a sentence prefix whose
/// last word is partial or empty
pub fn comp_argv(r: &mut Rng, o: &Opts) -> Vec<Tok> {
    let mut s = base_sentence(r, o, false);
    if r.chance(1, 3) {
        mutate(r, o, &mut s);
    }
    let k = r.below(s.len() + 1);
    s.truncate(k);
    match r.below(6) {
        0 | 1 => s.push(t("")),
        2 => s.push(t("-")),
        3 => s.push(t("--")),
        4 => {
            if let Some(last) = s.last_mut() {
                let l = last.len();
                if l > 0 {
                    let k = r.range(1, l);
                    last.truncate(k);
                }
            } else {
                s.push(t("--a"));
            }
        }
        _ => {}
    }
    s.truncate(16);
    s
}

// ---------------------------------------------------------------------------------------------
// environments

#[derive(Clone, Copy, Debug, PartialEq, Eq)]
pub enum EnvState {
    Unset,
    Empty,
    Valid,
    Invalid,
    NonUtf8,
    /// values that tempt an implementation into a "nicety": whitespace, 0/false, lists, `~`, `$X`
    Odd,
}

pub fn env_value(r: &mut Rng, st: EnvState) -> Option<Tok> {
    match st {
        EnvState::Unset => None,
        EnvState::Empty => Some(vec![]),
        EnvState::Valid => Some(t(*r.pick(&["1", "42", "7", "8", "21"][..]))),
        EnvState::Invalid => Some(t(*r.pick(&["x", "13", "99", "bad", "oops", "1.5", "-"][..]))),
        EnvState::NonUtf8 => Some(vec![b'4', 0xff, b'2']),
        EnvState::Odd => Some(
            r.pick(
                &[
                    " 7", "7 ", " 7 ", "\t7", "7\n", "0", "false", "no", "FALSE", "off", "1,2", "a,b",
                    "1:2", "~", "~/x", "$HOME", "${BPAF_V_A}", "X y", "=1", "TRUE", "+7", "0x10", "07",
                    "1_000", "-", "--", "-7",
                ][..],
            )
            .as_bytes()
            .to_vec(),
        ),
    }
}

pub fn env_state(r: &mut Rng) -> EnvState {
    match r.below(12) {
        0..=2 => EnvState::Unset,
        3 => EnvState::Empty,
        4..=6 => EnvState::Valid,
        7..=8 => EnvState::Invalid,
        9 => EnvState::NonUtf8,
        _ => EnvState::Odd,
    }
}
