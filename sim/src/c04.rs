//! C04 - running a parser is total, terminating and pure.
//!
//! Workload: seeded histories of operations on long-lived parser objects in a simulated process
//! world. Oracles T1..T6 are evaluated after every operation (DESIGN.md section 7).
use crate::exec::{self, Case, Obs, Op, Outcome, Tok};
use crate::gen::{self, Gen, Swarm};
use crate::rng::{mix, Rng};
use crate::shape::{Opts, Shape, S};
use crate::stats::{Fnv, RunReport, Stats, Violation};
use crate::val::Val;
use crate::world::{self, CbFault};
use bpaf::OptionParser;

/// Step budget per operation (T5). Measured on the unchanged tree (numbers in the evidence
/// files): with L = (argv bytes + items + 8) an ordinary command line (L < 200) costs at most
/// ~40 000 ticks and documentation rendering ~5 000, but repetitions over adjacent groups are
/// legitimately cubic in the number of items - the worst operation seen cost 0.28 * L^3 ticks
/// (a cluster of 1 164 short flags against many(alt[many(adjacent(..)) ..]); 5.6 * 10^8 ticks).
/// Clusters are therefore kept to 100..300 characters and the budget is 10^8 + 50 * L^3: more
/// than 2 000 times the worst ordinary command line and about 180 times the worst cubic
/// coefficient, so a legitimate slow parse cannot trip it, while an operation that stops
/// making progress is reported after a bounded number of steps instead of hanging the check.
pub const BUDGET_BASE: u64 = 100_000_000;
pub const BUDGET_PER_L3: u64 = 50;

pub fn budget_for(op: &Op) -> u64 {
    match op {
        Op::Run { argv, .. } | Op::Launch { argv, .. } | Op::Print { argv, .. } => {
            let l: u64 = argv.iter().map(|a| a.len() as u64 + 1).sum::<u64>() + 8;
            BUDGET_BASE + BUDGET_PER_L3 * l * l * l
        }
        _ => BUDGET_BASE,
    }
}

pub fn gen_case(seed: u64, run: u64, faults: bool) -> Case {
    let mut r = Rng::new(mix(seed, run));
    let mut sw = Swarm::draw(&mut r);
    if !faults {
        // callbacks still exist, they just never misbehave
        sw.callbacks = sw.callbacks && r.chance(1, 2);
    }
    let n_parsers = r.range(1, 2);
    let mut parsers: Vec<Opts> = Vec::new();
    for _ in 0..n_parsers {
        parsers.push(valid_opts(&mut r, &sw));
    }
    // one run in 400 works on a very large definition
    let big = r.chance(1, 400);
    let wide = big && r.chance(1, 2);
    if wide {
        parsers[0] = wide_opts(&mut r);
    } else if big {
        parsers[0] = big_opts(&mut r);
    }
    // one run in six carries a *respelled sibling*: the same definition with the first two ASCII
    // letters of every long name replaced by one two-byte letter, so that every text has the
    // same length in bytes and another length in characters (round 11: a render cache keyed by
    // byte sizes hands one definition the column layout of the other)
    if !big && r.chance(1, 6) {
        let sib = respell_opts(&parsers[0]);
        if parsers.len() > 1 {
            parsers[1] = sib;
        } else {
            parsers.push(sib);
        }
    }
    let mut env: Vec<(Tok, Tok)> = Vec::new();
    for o in &parsers {
        for name in o.declared_envs() {
            let st = gen::env_state(&mut r);
            if let Some(v) = gen::env_value(&mut r, st) {
                env.retain(|(k, _)| k != name.as_bytes());
                env.push((name.as_bytes().to_vec(), v));
            }
        }
    }
    for name in gen::LOOKALIKE_ENVS {
        if r.chance(1, 8) {
            env.push((name.as_bytes().to_vec(), b"1".to_vec()));
        }
    }
    let n_ops = r.range(2, 12);
    let mut ops = Vec::new();
    let mut live = parsers.clone();
    let mut sticky: Option<usize> = None;
    for _ in 0..n_ops {
        let p = match sticky.take() {
            Some(p) if r.chance(3, 4) => p,
            _ => r.below(live.len()),
        };
        let cb = if faults && sw.callbacks && r.chance(1, 3) {
            Some((
                r.range(1, 6) as u32,
                if r.chance(1, 2) {
                    CbFault::Fail
                } else {
                    CbFault::Panic
                },
            ))
        } else {
            None
        };
        if matches!(cb, Some((_, CbFault::Panic))) {
            sticky = Some(p);
        }
        let name = match r.below(6) {
            0..=2 => None,
            3 => Some("app".to_string()),
            4 => Some("my app".to_string()),
            _ => Some(r.pick(&["", "é", "a/b", "-x"][..]).to_string()),
        };
        let op = match r.below(20) {
            0..=7 => {
                let (_, mut argv) = gen::argv(&mut r, &live[p]);
                if name.is_none() && r.chance(1, 10) {
                    // without an application name this is an ordinary unknown flag; with one
                    // it is the documented "print the completion script and exit" request,
                    // which is C11's business and is not generated here
                    let style = *r.pick(&["bash", "zsh", "fish", "elvish"][..]);
                    let at = r.below(argv.len() + 1);
                    argv.insert(at, format!("--bpaf-complete-style-{}", style).into_bytes());
                }
                Op::Run {
                    p,
                    argv,
                    name,
                    comp: None,
                    cb,
                }
            }
            8..=11 => {
                let mut argv = gen::comp_argv(&mut r, &live[p]);
                let rev = *r.pick(&[0usize, 1, 7, 8, 9][..]);
                let comp = if r.chance(1, 3) {
                    // the way the shell stubs ask: a literal item in front
                    argv.insert(0, format!("--bpaf-complete-rev={}", rev).into_bytes());
                    None
                } else {
                    Some(rev)
                };
                Op::Run {
                    p,
                    argv,
                    name,
                    comp,
                    cb,
                }
            }
            12 if r.chance(1, 2) => {
                // a failing or help-requesting line, printed at some width
                let hostile = r.chance(1, 3);
                let mut argv = gen::base_sentence(&mut r, &live[p], hostile);
                gen::mutate(&mut r, &live[p], &mut argv);
                argv.truncate(12);
                Op::Print {
                    p,
                    argv,
                    name,
                    width: *r.pick(
                        &[0usize, 1, 7, 20, 40, 99, 100, 101, 150, 188, 200, 1000, usize::MAX][..],
                    ),
                }
            }
            12..=13 => Op::Render {
                p,
                what: r.below(3) as u8,
                app: r.pick(&["app", "my app", "", "é"][..]).to_string(),
                cb,
            },
            14 => Op::Check { p },
            15..=17 => {
                let declared = live[p].declared_envs();
                let name: Tok = if !declared.is_empty() && r.chance(2, 3) {
                    r.pick(&declared).as_bytes().to_vec()
                } else {
                    r.pick(gen::LOOKALIKE_ENVS).as_bytes().to_vec()
                };
                let st = gen::env_state(&mut r);
                Op::SetEnv {
                    name,
                    val: gen::env_value(&mut r, st),
                }
            }
            _ => {
                let o = valid_opts(&mut r, &sw);
                live.push(o.clone());
                Op::NewParser { opts: o }
            }
        };
        ops.push(op);
    }
    if wide {
        // lines that go all the way down the wide definition: a good one, a request for help,
        // and a mistake at the bottom
        for line in [
            &["one", "two", "three", "--leaf", "42"][..],
            &["one", "two", "--help"][..],
            &["one", "two", "three", "--leaf", "4x2"][..],
            &["one", "--alt-1-3", "two"][..],
        ] {
            ops.push(Op::Run {
                p: 0,
                argv: line.iter().map(|w| w.as_bytes().to_vec()).collect(),
                name: None,
                comp: None,
                cb: None,
            });
        }
    }
    Case {
        prop: "C04".into(),
        seed,
        run,
        parsers,
        env,
        ops,
        interlude: Vec::new(),
    }
}

/// draw definitions until one passes `check_invariants`
/// a definition with hundreds of documented items (6 x 6 x 6 switches at the top level and again
/// inside a command): sizes that the ordinary generator, bounded at six fields per group, never
/// reaches - a manual page of more than 64 KiB, long help screens, wide short-name tables
pub fn big_opts(r: &mut Rng) -> Opts {
    use crate::shape::{intern, Named, Shape};
    let help = gen::TEXTS[1];
    let mut n = 0usize;
    let mut cube = |r: &mut Rng| -> Shape {
        let mut l1 = Vec::new();
        for _ in 0..6 {
            let mut l2 = Vec::new();
            for _ in 0..6 {
                let mut l3 = Vec::new();
                for _ in 0..6 {
                    n += 1;
                    let named = Named {
                        shorts: vec![],
                        longs: vec![intern(&format!("opt-{}", n))],
                        envs: vec![],
                        help: Some(help),
                    };
                    l3.push(if r.chance(1, 2) {
                        Shape::Switch(named)
                    } else {
                        Shape::Wrap(
                            crate::shape::W::Optional { catch: false },
                            Box::new(Shape::Arg {
                                named,
                                metavar: "VAL",
                                ty: crate::shape::Ty::Str,
                                adjacent: false,
                            }),
                        )
                    });
                }
                l2.push(Shape::Seq(l3, false));
            }
            l1.push(Shape::Seq(l2, false));
        }
        Shape::Seq(l1, false)
    };
    let inner = cube(r);
    let cmd = Shape::Cmd {
        name: "big",
        shorts: vec![],
        longs: vec![],
        help: Some(help),
        adjacent: false,
        opts: Box::new(Opts::plain(inner)),
    };
    let top = cube(r);
    let mut o = Opts::plain(Shape::Seq(
        vec![
            top,
            Shape::Wrap(crate::shape::W::Optional { catch: false }, Box::new(cmd)),
        ],
        false,
    ));
    o.descr = Some(help);
    o.version = Some("1.2.3");
    o
}

/// a definition that is wide rather than big: three command levels, each a choice between a
/// dozen alternatives with the command that leads further down listed first - the shape on
/// which work that doubles per alternative or per level shows
pub fn wide_opts(_r: &mut Rng) -> Opts {
    use crate::shape::{intern, Named, Shape, Ty};
    let leaf = Shape::Arg {
        named: Named {
            shorts: vec![],
            longs: vec!["leaf"],
            envs: vec![],
            help: Some(gen::TEXTS[0]),
        },
        metavar: "N",
        ty: Ty::Int,
        adjacent: false,
    };
    let mut inner = Opts::plain(leaf);
    for (depth, name) in ["three", "two", "one"].iter().enumerate() {
        let mut alts = vec![Shape::Cmd {
            name,
            shorts: vec![],
            longs: vec![],
            help: None,
            adjacent: false,
            opts: Box::new(inner),
        }];
        for k in 0..11 {
            alts.push(Shape::ReqFlag(
                Named {
                    shorts: vec![],
                    longs: vec![intern(&format!("alt-{}-{}", depth, k))],
                    envs: vec![],
                    help: None,
                },
                k,
            ));
        }
        inner = Opts::plain(Shape::Alt(alts));
    }
    inner
}

pub fn valid_opts(r: &mut Rng, sw: &Swarm) -> Opts {
    for _ in 0..50 {
        let mut g = Gen::new(r, sw.clone());
        let o = g.opts();
        if exec::build_checked(&o).is_some() {
            return o;
        }
    }
    Opts::plain(crate::shape::Shape::Pure(0))
}

/// names of all known variables that this definition does not declare
pub fn undeclared(declared: &[&'static str]) -> Vec<&'static str> {
    gen::all_env_names()
        .into_iter()
        .filter(|n| !declared.contains(n))
        .collect()
}

thread_local! {
    static FLIP_WINDOW: std::cell::Cell<usize> = std::cell::Cell::new(0);
}

/// the slice of undeclared names whose *real* variables are flipped this time: setenv is slow
/// and leaks, so each scramble touches a rotating window of 8 real variables (all of them in
/// the simulated store)
fn real_window(names: &[&'static str], advance: bool) -> Vec<&'static str> {
    if names.is_empty() {
        return Vec::new();
    }
    let w = FLIP_WINDOW.with(|c| {
        let v = c.get();
        if advance {
            c.set(v.wrapping_add(1));
        }
        v
    });
    let start = (w * 8) % names.len();
    (0..8.min(names.len()))
        .map(|i| names[(start + i) % names.len()])
        .collect()
}

/// flip every undeclared variable in the simulated store, and a rotating window of them in the
/// worker's real environment
pub fn scramble_undeclared(declared: &[&'static str]) -> std::collections::BTreeMap<Tok, Tok> {
    let names = undeclared(declared);
    world::cwd_flip();
    world::real_env_flip(&real_window(&names, false));
    world::with(|s| {
        let saved = s.env.clone();
        for name in &names {
            let k = name.as_bytes().to_vec();
            if s.env.remove(&k).is_none() {
                s.env.insert(k, b"13".to_vec());
            }
        }
        saved
    })
}

pub fn unscramble(declared: &[&'static str], saved: std::collections::BTreeMap<Tok, Tok>) {
    world::real_env_flip(&real_window(&undeclared(declared), true));
    world::cwd_flip();
    world::with(|s| s.env = saved);
}

struct Live {
    opts: Opts,
    parser: OptionParser<Val>,
    /// an injected panic unwound through this object earlier in the history
    unwound: bool,
}

fn exec_op(op: &Op, parser: &OptionParser<Val>) -> Obs {
    match op {
        Op::Run {
            argv,
            name,
            comp,
            cb,
            ..
        } => exec::run_inner(parser, argv, name, *comp, *cb, budget_for(op)),
        Op::Print {
            argv, name, width, ..
        } => exec::run_and_print(parser, argv, name, *width, budget_for(op)),
        Op::Render { what, app, cb, .. } => exec::render(parser, *what, app, *cb, budget_for(op)),
        Op::Check { .. } => exec::check_invariants(parser, budget_for(op)),
        _ => unreachable!(),
    }
}

fn describe(o: &Obs) -> String {
    format!(
        "{}: {} | stdout {:?} | stderr {:?}",
        o.outcome.class(),
        exec::clip(&format!("{:?}", o.outcome), 600),
        exec::clip(&String::from_utf8_lossy(&o.out), 200),
        exec::clip(&String::from_utf8_lossy(&o.err), 200)
    )
}

/// `src/complete_gen.rs:416` -> `complete_gen.rs:416`
fn panic_site(msg: &str) -> String {
    let site = msg.rsplit(" @ ").next().unwrap_or("");
    let site = site.rsplit('/').next().unwrap_or(site);
    site.to_string()
}

pub fn run_case(case: &Case, stats: &mut Stats) -> RunReport {
    let mut report = RunReport::default();
    let mut h = Fnv::new();
    world::with(|s| {
        s.env.clear();
        for (k, v) in &case.env {
            s.env.insert(k.clone(), v.clone());
        }
    });
    let mut live: Vec<Live> = Vec::new();
    for o in &case.parsers {
        match exec::build_checked(o) {
            Some(parser) => live.push(Live {
                opts: o.clone(),
                parser,
                unwound: false,
            }),
            None => {
                report.invalid = true;
                return report;
            }
        }
    }
    let mut seam_events = 0u64;
    let mut classes = std::collections::BTreeSet::new();
    exec::pending_clear();
    macro_rules! violation {
        ($rule:expr, $ix:expr, $key:expr, $detail:expr) => {{
            let key: String = $key;
            if crate::is_known("C04", &key) {
                // a recorded finding: count it and carry on with the run
                stats.bump(&format!("known-finding.{}", key));
            } else {
                report.violation = Some(Violation {
                    rule: $rule.to_string(),
                    op_index: $ix,
                    key,
                    detail: $detail,
                });
                report.hash = h.finish();
                return report;
            }
        }};
    }
    for (ix, op) in case.ops.iter().enumerate() {
        stats.bump(&format!("op.{}", op.kind()));
        match op {
            Op::SetEnv { name, val } => {
                world::with(|s| match val {
                    Some(v) => {
                        s.env.insert(name.clone(), v.clone());
                    }
                    None => {
                        s.env.remove(name);
                    }
                });
                h.write_str("setenv");
                seam_events += 1;
                continue;
            }
            Op::NewParser { opts } => {
                if let Some(parser) = exec::build_checked(opts) {
                    live.push(Live {
                        opts: opts.clone(),
                        parser,
                        unwound: false,
                    });
                }
                continue;
            }
            Op::Launch { .. } => continue,
            _ => {}
        }
        let p = match op {
            Op::Run { p, .. } | Op::Render { p, .. } | Op::Check { p } | Op::Print { p, .. } => *p,
            _ => unreachable!(),
        };
        if p >= live.len() {
            continue;
        }
        let cb = match op {
            Op::Run { cb, .. } | Op::Render { cb, .. } => *cb,
            _ => None,
        };
        // ---- the operation itself, on the long-lived object
        let first = exec_op(op, &live[p].parser);
        stats.add("ticks.total", first.ticks);
        stats.max("ticks.max_per_op", first.ticks);
        // how close the legitimately most expensive operation came to the T5 budget
        stats.max("ticks.max_permille_of_budget", first.ticks.saturating_mul(1000) / budget_for(op).max(1));
        if let Op::Run { argv, .. } = op {
            let l: u64 = argv.iter().map(|a| a.len() as u64 + 1).sum::<u64>() + 8;
            stats.max("ticks.ratio_l2_x1000", first.ticks * 1000 / (l * l));
            stats.max("ticks.ratio_l3_x1000000", first.ticks * 1000000 / (l * l * l));
            if l < 200 {
                stats.max("ticks.max_short_argv", first.ticks);
            }
            if crate::DEBUG_TICKS.load(std::sync::atomic::Ordering::Relaxed) && first.ticks > 3_000_000 {
                eprintln!("TICKS {} l={} run={} op={}", first.ticks, l, case.run, ix);
            }
        } else {
            stats.max("ticks.max_render", first.ticks);
        }
        stats.bump(&format!("outcome.{}", first.outcome.class()));
        stats.add("fault.callback_fail.fired", first.cb_fail as u64);
        stats.add("fault.callback_panic.fired", first.cb_panic as u64);
        seam_events += first.env_reads.len() as u64 + (first.cb_fail + first.cb_panic) as u64;
        classes.insert(first.outcome.class());
        h.write_str(&format!("{:?}", first.outcome));
        report
            .trace
            .push(format!("op {} {}: {}", ix, op.kind(), describe(&first)));
        h.write(&first.out);
        h.write(&first.err);
        h.write_u64(first.ticks);
        if !first.env_reads.is_empty() {
            stats.bump("probe.env_read_during_op");
        }
        {
            let envc = if first.env_reads.is_empty() {
                "noenv"
            } else if first.env_reads.iter().any(|r| r.1) {
                "envset"
            } else {
                "envunset"
            };
            let fk = match cb {
                None => "nofault",
                Some((_, CbFault::Fail)) => "cbfail",
                Some((_, CbFault::Panic)) => "cbpanic",
            };
            let sk = live[p].opts.skeleton();
            stats.state(&[&sk, op.kind(), envc, fk, first.outcome.class()]);
        }

        // ---- T1 / T5: normal return
        match &first.outcome {
            Outcome::Budget => violation!(
                "T5",
                ix,
                format!("rule=T5 op={}", op.kind()),
                format!(
                    "step budget of {} exhausted: {}",
                    budget_for(op),
                    describe(&first)
                )
            ),
            Outcome::Panic(m) => violation!(
                "T1",
                ix,
                format!("rule=T1 class=PANIC site={}", panic_site(m)),
                format!("panicked: {}", m)
            ),
            Outcome::Exit(c) => violation!(
                "T1",
                ix,
                format!("rule=T1 class=EXIT code={}", c),
                format!("process::exit({}) inside a library call", c)
            ),
            Outcome::Injected(k) => {
                let expected = matches!(cb, Some((at, CbFault::Panic)) if at == *k);
                if !expected {
                    violation!(
                        "T1",
                        ix,
                        "rule=T1 class=UNEXPECTED-INJECTED".to_string(),
                        format!("injected panic {} surfaced without a plan", k)
                    );
                }
                stats.bump("probe.callback_panicked_mid_op");
                live[p].unwound = true;
            }
            _ => {}
        }
        if first.args_reads > 0 {
            violation!(
                "T4",
                ix,
                format!("rule=T4 reads=argv op={}", op.kind()),
                "the process argument vector was read by an operation that was given its arguments explicitly".to_string()
            );
        }
        // ---- T4a: only declared variables are read
        let declared = live[p].opts.declared_envs();
        for (name, _) in &first.env_reads {
            if !declared.iter().any(|d| d.as_bytes() == &name[..]) {
                violation!(
                    "T4",
                    ix,
                    format!("rule=T4 reads=undeclared op={}", op.kind()),
                    format!(
                        "read undeclared environment variable {:?}",
                        String::from_utf8_lossy(name)
                    )
                );
            }
        }
        // ---- T3: repeat at once
        let again = exec_op(op, &live[p].parser);
        stats.bump("rule.T3.evaluated");
        if !again.same_result(&first) {
            violation!(
                "T3",
                ix,
                format!("rule=T3 op={}", op.kind()),
                format!("first : {}\nrepeat: {}", describe(&first), describe(&again))
            );
        }
        // ---- T2 / T6: fresh twin
        // The twin normally runs on the worker's own thread; after a panic has unwound
        // through bpaf anywhere in this run, and for a fixed sample of the other operations,
        // it runs on a brand new thread, where thread-local leftovers do not exist either
        // (creating a thread costs milliseconds in this VM, hence the sample).
        let any_unwound = live.iter().any(|l| l.unwound);
        // help, version and documentation renders are rare and go through the most code that
        // could keep scratch state around: their twins always get a new thread
        let rendered = matches!(first.outcome, Outcome::Stdout(_) | Outcome::Text(_));
        let fresh = if any_unwound || rendered || (case.run + ix as u64) % 32 == 0 {
            stats.bump("probe.twin_on_fresh_thread");
            let opts = live[p].opts.clone();
            let op2 = op.clone();
            let env = world::with(|s| s.env.clone());
            exec::on_fresh_thread(env, move || {
                let twin = exec::build_unchecked(&opts);
                exec_op(&op2, &twin)
            })
        } else {
            let twin = exec::build_unchecked(&live[p].opts);
            exec_op(op, &twin)
        };
        let rule = if live[p].unwound && !matches!(first.outcome, Outcome::Injected(_)) {
            stats.bump("rule.T6.evaluated");
            "T6"
        } else {
            stats.bump("rule.T2.evaluated");
            "T2"
        };
        if ix > 0 {
            stats.bump("probe.twin_compared_after_history");
        }
        if !fresh.same_result(&first) {
            violation!(
                rule,
                ix,
                format!("rule={} op={}", rule, op.kind()),
                format!(
                    "long-lived: {}\nfresh twin: {}",
                    describe(&first),
                    describe(&fresh)
                )
            );
        }
        // ---- T8: failures returned earlier in this run still render the way they did
        stats.bump("rule.T8.evaluated");
        if let Some((_, then, now)) = exec::pending_recheck() {
            violation!(
                "T8",
                ix,
                "rule=T8 late-rendering".to_string(),
                format!(
                    "a ParseFailure returned earlier in this run renders differently now that other operations have run\nwhen returned: {}\nnow          : {}",
                    exec::clip(&format!("{:?}", then), 600),
                    exec::clip(&format!("{:?}", now), 600)
                )
            );
        }
        // ---- T4b: undeclared variables are invisible
        let saved = scramble_undeclared(&declared);
        let framed = exec_op(op, &live[p].parser);
        unscramble(&declared, saved);
        stats.bump("rule.T4.evaluated");
        if !framed.same_result(&first) {
            violation!(
                "T4",
                ix,
                format!("rule=T4 differs=undeclared-env op={}", op.kind()),
                format!(
                    "as is    : {}\nscrambled: {}",
                    describe(&first),
                    describe(&framed)
                )
            );
        }
    }
    report.hash = h.finish();
    if seam_events > 0 && classes.len() >= 2 {
        report.nontrivial = Some(case.content_hash());
    }
    report
}

/// same length in bytes, one character fewer: `alpha` becomes `\u{e1}pha`
fn respell(l: S) -> S {
    let b = l.as_bytes();
    if b.len() >= 2 && b[0].is_ascii_alphabetic() && b[1].is_ascii_alphabetic() {
        let c = char::from_u32(0xE0 + (b[0] % 16) as u32).unwrap_or('\u{e9}');
        crate::shape::intern(&format!("{}{}", c, &l[2..]))
    } else {
        l
    }
}

fn respell_opts(o: &Opts) -> Opts {
    let mut o = o.clone();
    respell_shape(&mut o.root);
    o
}

fn respell_shape(s: &mut Shape) {
    match s {
        Shape::Switch(n) | Shape::Flag(n, _, _) | Shape::ReqFlag(n, _) => {
            n.longs.iter_mut().for_each(|l| *l = respell(*l))
        }
        Shape::Arg { named, .. } => named.longs.iter_mut().for_each(|l| *l = respell(*l)),
        Shape::Cmd { longs, opts, .. } => {
            longs.iter_mut().for_each(|l| *l = respell(*l));
            respell_shape(&mut opts.root);
        }
        Shape::Wrap(_, inner) => respell_shape(inner),
        Shape::Seq(v, _) | Shape::Alt(v) => v.iter_mut().for_each(respell_shape),
        _ => {}
    }
}
