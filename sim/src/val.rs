//! Dynamic value produced by every generated parser, plus the user callbacks' semantics.
use std::fmt;

#[derive(Clone, Debug, PartialEq)]
pub enum Val {
    Unit,
    Bool(bool),
    Int(i64),
    Str(String),
    Os(Vec<u8>),
    Opt(Option<Box<Val>>),
    List(Vec<Val>),
    Tup(Vec<Val>),
    Tag(u32, Box<Val>),
    Count(usize),
    /// a value whose destructor is audible: the original rings when dropped, clones are mute
    Bell(Bell),
}

/// Stand-in for a user value with a side effect on drop (a session, a lock file, a logger).
/// When and whether a parser that owns one is destroyed becomes visible on stdout.
#[derive(Debug)]
pub struct Bell {
    pub armed: bool,
}

impl Clone for Bell {
    fn clone(&self) -> Self {
        Bell { armed: false }
    }
}

impl PartialEq for Bell {
    fn eq(&self, _: &Bell) -> bool {
        true
    }
}

impl Drop for Bell {
    fn drop(&mut self) {
        if self.armed {
            crate::world::noise("bell: a value owned by the parser was dropped\n");
        }
    }
}

impl fmt::Display for Val {
    fn fmt(&self, f: &mut fmt::Formatter<'_>) -> fmt::Result {
        match self {
            Val::Unit => write!(f, "()"),
            Val::Bool(b) => write!(f, "{}", b),
            Val::Int(i) => write!(f, "{}", i),
            Val::Str(s) => write!(f, "{}", s),
            Val::Os(b) => write!(f, "{}", String::from_utf8_lossy(b)),
            Val::Opt(None) => write!(f, "none"),
            Val::Opt(Some(v)) => write!(f, "some({})", v),
            Val::List(xs) | Val::Tup(xs) => {
                write!(f, "[")?;
                for (i, x) in xs.iter().enumerate() {
                    if i > 0 {
                        write!(f, ", ")?;
                    }
                    write!(f, "{}", x)?;
                }
                write!(f, "]")
            }
            Val::Tag(t, v) => write!(f, "#{}({})", t, v),
            Val::Count(n) => write!(f, "{}", n),
            Val::Bell(_) => write!(f, "bell"),
        }
    }
}

/// `guard` predicates, by kind
pub fn guard_ok(kind: u8, v: &Val) -> bool {
    match kind {
        // deep: no 13, no "bad"
        0 => match v {
            Val::Int(13) => false,
            Val::Str(s) if s == "bad" => false,
            Val::Os(b) if b == b"bad" => false,
            Val::Opt(Some(v)) | Val::Tag(_, v) => guard_ok(0, v),
            Val::List(xs) | Val::Tup(xs) => xs.iter().all(|x| guard_ok(0, x)),
            _ => true,
        },
        // rejects "empty" things
        1 => !matches!(v, Val::Opt(None) | Val::Count(0))
            && !matches!(v, Val::List(xs) if xs.is_empty())
            && !matches!(v, Val::Str(s) if s.is_empty()),
        _ => true,
    }
}

/// `parse` functions, by kind
pub fn parse_fn(kind: u8, v: Val) -> Result<Val, String> {
    match kind {
        0 => match v {
            Val::Int(99) => Err("ninety-nine is not allowed".to_string()),
            Val::Int(n) => Ok(Val::Int(n.wrapping_add(1000))),
            Val::Str(s) if s == "oops" => Err("oops is not a value\n".to_string()),
            Val::Str(s) => Ok(Val::Str(s.to_uppercase())),
            other => Ok(Val::Tag(7, Box::new(other))),
        },
        _ => Ok(Val::Str(format!("{}", v))),
    }
}

pub const FALLBACK_WITH_OK: i64 = 77;
pub const PURE_WITH_OK: i64 = 55;
