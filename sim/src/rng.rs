//! SplitMix64: the only source of randomness in the simulator.
#[derive(Clone, Debug)]
pub struct Rng(pub u64);

pub fn mix(seed: u64, index: u64) -> u64 {
    let mut r = Rng(seed ^ 0x9E37_79B9_7F4A_7C15u64.wrapping_mul(index.wrapping_add(1)));
    r.next_u64();
    r.next_u64()
}

impl Rng {
    pub fn new(seed: u64) -> Self {
        Rng(seed)
    }
    pub fn next_u64(&mut self) -> u64 {
        self.0 = self.0.wrapping_add(0x9E37_79B9_7F4A_7C15);
        let mut z = self.0;
        z = (z ^ (z >> 30)).wrapping_mul(0xBF58_476D_1CE4_E5B9);
        z = (z ^ (z >> 27)).wrapping_mul(0x94D0_49BB_1331_11EB);
        z ^ (z >> 31)
    }
    /// uniform in 0..n (n > 0)
    pub fn below(&mut self, n: usize) -> usize {
        debug_assert!(n > 0);
        (self.next_u64() % n as u64) as usize
    }
    pub fn range(&mut self, lo: usize, hi_incl: usize) -> usize {
        lo + self.below(hi_incl - lo + 1)
    }
    /// true with probability num/den
    pub fn chance(&mut self, num: usize, den: usize) -> bool {
        self.below(den) < num
    }
    pub fn pick<'a, T>(&mut self, xs: &'a [T]) -> &'a T {
        &xs[self.below(xs.len())]
    }
    pub fn fork(&mut self) -> Rng {
        Rng(self.next_u64())
    }
}
