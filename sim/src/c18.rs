//! C18 - environment variables are a fallback below the command line.
//!
//! The environment is ambient process state reachable only through the `var_os` seam. Workload:
//! histories that interleave environment edits with runs of long-lived parsers whose named items
//! are env-backed. Oracles are relational (DESIGN.md section 7, C18): they compare the real
//! parser with itself under a controlled change of the environment, of the command line or of
//! the definition, so they speak about the environment only and stay silent about everything
//! else a parser does.
use crate::exec::{self, Case, Obs, Op, Outcome, Tok};
use crate::gen::{self, EnvState};
use crate::rng::{mix, Rng};
use crate::shape::{Named, Opts, Shape, Ty, S, W};
use crate::stats::{Fnv, RunReport, Stats, Violation};
use crate::val;
use crate::world;
use std::collections::BTreeMap;

const BUDGET: u64 = crate::c04::BUDGET_BASE;

// ---------------------------------------------------------------------------------------------
// definitions

struct Pools {
    shorts: Vec<char>,
    longs: Vec<S>,
    envs: Vec<S>,
    cmds: Vec<S>,
    /// names used by enclosing command levels: an inner item may reuse one (a global `-v` that a
    /// subcommand accepts too)
    outer_shorts: Vec<char>,
    outer_longs: Vec<S>,
    /// names used so far at the level being generated (unique within a level)
    level_shorts: Vec<char>,
    level_longs: Vec<S>,
    /// variables already declared by some item: one item in eight reuses one of them
    used_envs: Vec<S>,
}

impl Pools {
    fn new() -> Pools {
        Pools {
            shorts: vec![
                'a', 'b', 'c', 'd', 'e', 'f', 'g', 'k', 'm', 'n', 'p', 'q', 'r', 's', 't', 'u', 'B', 'D',
            ],
            longs: vec![
                "alpha", "beta", "gamma", "delta", "epsilon", "zeta", "eta", "theta", "iota", "kappa",
                "lambda", "mu", "nu", "xi", "omicron", "pi", "rho", "sigma",
            ],
            envs: vec![
                "BPAF_V_A", "BPAF_V_B", "BPAF_V_C", "BPAF_V_D", "BPAF_V_E", "BPAF_V_F", "BPAF_V_G",
                "BPAF_V_H", "bpaf_v_i", "Bpaf_V_J", "bpaf_V_k2",
            ],
            cmds: vec!["cmd", "sub", "run", "go"],
            outer_shorts: vec![],
            outer_longs: vec![],
            level_shorts: vec![],
            level_longs: vec![],
            used_envs: vec![],
        }
    }
    fn short(&mut self, r: &mut Rng) -> Option<char> {
        let free: Vec<char> = self
            .outer_shorts
            .iter()
            .copied()
            .filter(|c| !self.level_shorts.contains(c))
            .collect();
        let c = if !free.is_empty() && r.chance(1, 4) {
            *r.pick(&free)
        } else {
            Pools::take(r, &mut self.shorts)?
        };
        self.level_shorts.push(c);
        Some(c)
    }
    fn long(&mut self, r: &mut Rng) -> Option<S> {
        let free: Vec<S> = self
            .outer_longs
            .iter()
            .copied()
            .filter(|c| !self.level_longs.contains(c))
            .collect();
        let l = if !free.is_empty() && r.chance(1, 4) {
            *r.pick(&free)
        } else {
            Pools::take(r, &mut self.longs)?
        };
        self.level_longs.push(l);
        Some(l)
    }
    fn take<T: Copy>(r: &mut Rng, v: &mut Vec<T>) -> Option<T> {
        if v.is_empty() {
            None
        } else {
            let i = r.below(v.len());
            Some(v.remove(i))
        }
    }
}

fn gen_named(r: &mut Rng, p: &mut Pools, env_p: usize) -> Option<Named> {
    let mut n = Named::default();
    match r.below(4) {
        0 => n.shorts.push(p.short(r)?),
        1 => n.longs.push(p.long(r)?),
        _ => {
            n.shorts.push(p.short(r)?);
            n.longs.push(p.long(r)?);
        }
    }
    // hidden aliases: further short/long names on the same item
    if r.chance(1, 4) {
        if r.chance(1, 2) {
            n.shorts.push(p.short(r)?);
        } else {
            n.longs.push(p.long(r)?);
        }
    }
    if r.chance(env_p, 8) {
        let reuse = if !p.used_envs.is_empty() && r.chance(1, 8) {
            Some(*r.pick(&p.used_envs))
        } else {
            None
        };
        if let Some(e) = reuse.or_else(|| Pools::take(r, &mut p.envs)) {
            p.used_envs.push(e);
            n.envs.push(e);
            if r.chance(1, 3) {
                if let Some(e2) = Pools::take(r, &mut p.envs) {
                    n.envs.push(e2);
                }
            }
            if r.chance(1, 10) {
                // env-only item; its names are simply not used
                p.level_shorts.retain(|c| !n.shorts.contains(c));
                p.level_longs.retain(|l| !n.longs.contains(l));
                n.shorts.clear();
                n.longs.clear();
            }
        }
    }
    if r.chance(1, 2) {
        n.help = Some(*r.pick(&["help text", "another help", "x"][..]));
    }
    Some(n)
}

fn gen_item(r: &mut Rng, p: &mut Pools) -> Option<Shape> {
    let named = gen_named(r, p, 6)?;
    let leaf = match r.below(10) {
        0 => Shape::Switch(named),
        1 => Shape::Flag(named, 1, 0),
        // (13 is the value the harness's `guard` rejects)
        2 => Shape::ReqFlag(named, if r.chance(1, 3) { 13 } else { 1 }),
        _ => {
            // `ParseArgument::adjacent`: only `-sVAL`, `-s=VAL`, `--long=VAL` count
            let adjacent = (!named.shorts.is_empty() || !named.longs.is_empty()) && r.chance(1, 10);
            Shape::Arg {
                named,
                metavar: *r.pick(&["A", "N", "VAL"][..]),
                ty: *r.pick(&[Ty::Int, Ty::Int, Ty::Str, Ty::Os, Ty::Num, Ty::Int, Ty::Str, Ty::Path][..]),
                adjacent,
            }
        }
    };
    let is_flag = !matches!(leaf, Shape::Arg { .. });
    let guardable = matches!(leaf, Shape::Arg { .. } | Shape::ReqFlag(..));
    let mut s = leaf;
    let n = *r.pick(&[0usize, 1, 1, 1, 2, 2, 3][..]);
    for _ in 0..n {
        let w = match r.below(18) {
            0 | 1 => W::Optional {
                catch: r.chance(1, 5),
            },
            2 | 3 => W::Many {
                catch: r.chance(1, 6),
            },
            4 => W::Some_ {
                catch: r.chance(1, 6),
                msg: "need at least one",
            },
            5 => W::Collect {
                catch: r.chance(1, 6),
            },
            6 => W::Count,
            7 => W::Last,
            8 | 9 => W::Fallback {
                val: 5,
                display: r.below(3) as u8,
            },
            10 => W::FallbackWith {
                kind: *r.pick(&[0u8, 0, 1][..]),
                display: 0,
            },
            11 | 12 if guardable => W::Guard {
                kind: 0,
                msg: "must be valid",
            },
            13 if !is_flag => W::Parse { kind: 0 },
            14 => W::Map { tag: 1 },
            15 => W::Hide,
            16 => W::GroupHelp("group"),
            17 => W::Boxed,
            _ => continue,
        };
        s = Shape::Wrap(w, Box::new(s));
    }
    Some(s)
}

fn gen_level(r: &mut Rng, p: &mut Pools, depth: usize) -> Shape {
    let mut fields = Vec::new();
    let mut extra: Vec<Shape> = Vec::new();
    let n = r.range(1, 3);
    for _ in 0..n {
        let f = match r.below(13) {
            0 | 1 => {
                // alternatives between items
                let k = r.range(2, 3);
                let alts: Vec<Shape> = (0..k).filter_map(|_| gen_item(r, p)).collect();
                if alts.len() >= 2 {
                    let a = Shape::Alt(alts);
                    // a default for the whole choice
                    Some(match r.below(6) {
                        0 => Shape::Wrap(W::Optional { catch: false }, Box::new(a)),
                        1 => Shape::Wrap(
                            W::Fallback {
                                val: 5,
                                display: 0,
                            },
                            Box::new(a),
                        ),
                        2 => Shape::Wrap(W::Many { catch: false }, Box::new(a)),
                        _ => a,
                    })
                } else {
                    alts.into_iter().next()
                }
            }
            2 => {
                // a group of items under a group-level wrapper
                let a = gen_item(r, p);
                let b = gen_item(r, p);
                match (a, b) {
                    (Some(a), Some(b)) => {
                        let g = Shape::Seq(vec![a, b], false);
                        Some(match r.below(3) {
                            0 => Shape::Wrap(W::Optional { catch: false }, Box::new(g)),
                            1 => Shape::Wrap(W::Many { catch: false }, Box::new(g)),
                            _ => g,
                        })
                    }
                    (a, _) => a,
                }
            }
            3 | 4 => {
                // adjacent group: starts with a required named item (its variable may stand in
                // for it), followed by one or two more items
                let first = gen_named(r, p, 5).and_then(|n| {
                    if n.shorts.is_empty() && n.longs.is_empty() {
                        return None;
                    }
                    Some(if r.chance(1, 2) {
                        Shape::ReqFlag(n, 1)
                    } else {
                        Shape::Arg {
                            named: n,
                            metavar: "T",
                            ty: *r.pick(&[Ty::Int, Ty::Str][..]),
                            adjacent: false,
                        }
                    })
                });
                let second = gen_item(r, p);
                let third = if r.chance(1, 3) { gen_item(r, p) } else { None };
                match (first, second) {
                    (Some(a), Some(b)) => {
                        let mut members = vec![a, b];
                        members.extend(third);
                        let g = Shape::Seq(members, true);
                        Some(match r.below(4) {
                            0 => g,
                            1 => Shape::Wrap(W::Optional { catch: false }, Box::new(g)),
                            _ => Shape::Wrap(W::Many { catch: false }, Box::new(g)),
                        })
                    }
                    (_, b) => b,
                }
            }
            5 => {
                // the `--color[=WHEN]` idiom: an adjacent-only argument and a switch that share
                // their names; the bare spelling is the switch, the attached one the argument
                match gen_named(r, p, 8) {
                    Some(n) if !n.shorts.is_empty() || !n.longs.is_empty() => {
                        let mut flag_names = n.clone();
                        flag_names.envs.clear();
                        extra.push(Shape::Switch(flag_names));
                        Some(Shape::Wrap(
                            W::Optional { catch: false },
                            Box::new(Shape::Arg {
                                named: n,
                                metavar: "WHEN",
                                ty: Ty::Str,
                                adjacent: true,
                            }),
                        ))
                    }
                    other => other.map(Shape::Switch),
                }
            }
            _ => gen_item(r, p),
        };
        if let Some(f) = f {
            fields.push(f);
        }
        fields.append(&mut extra);
    }
    if r.chance(1, 10) {
        // the same env-backed flag declared twice (a parser value cloned into two fields)
        let twin = fields.iter().find_map(|f| match f {
            Shape::Switch(n) | Shape::Flag(n, _, _) | Shape::ReqFlag(n, _)
                if !n.envs.is_empty() && (!n.shorts.is_empty() || !n.longs.is_empty()) =>
            {
                Some(f.clone())
            }
            _ => None,
        });
        if let Some(t) = twin {
            fields.push(t);
        }
    }
    if r.chance(1, 5) {
        fields.push(Shape::Pos {
            metavar: "FILE",
            ty: Ty::Str,
            strict: 0,
            help: None,
        });
    } else if depth < 2 && r.chance(1, 3) {
        let k = r.range(1, 2);
        let mut cmds = Vec::new();
        for _ in 0..k {
            if let Some(name) = Pools::take(r, &mut p.cmds) {
                // an inner level may reuse names of the enclosing levels; the scanner refuses
                // lines on which such a name is ambiguous
                let saved = (
                    p.outer_shorts.clone(),
                    p.outer_longs.clone(),
                    std::mem::take(&mut p.level_shorts),
                    std::mem::take(&mut p.level_longs),
                );
                p.outer_shorts.extend(saved.2.iter().copied());
                p.outer_longs.extend(saved.3.iter().copied());
                let root = gen_level(r, p, depth + 1);
                p.outer_shorts = saved.0;
                p.outer_longs = saved.1;
                p.level_shorts = saved.2;
                p.level_longs = saved.3;
                let mut o = Opts::plain(root);
                if r.chance(1, 2) {
                    o.version = Some("1.0");
                }
                o.fallback_to_usage = r.chance(1, 5);
                cmds.push(Shape::Cmd {
                    name,
                    shorts: vec![],
                    longs: vec![],
                    help: None,
                    adjacent: false,
                    opts: Box::new(o),
                });
            }
        }
        if cmds.len() == 1 {
            let c = cmds.pop().unwrap();
            fields.push(if r.chance(1, 3) {
                Shape::Wrap(W::Optional { catch: false }, Box::new(c))
            } else {
                c
            });
        } else if cmds.len() > 1 {
            fields.push(Shape::Alt(cmds));
        }
    }
    if fields.len() == 1 && r.chance(1, 2) {
        fields.pop().unwrap()
    } else {
        Shape::Seq(fields, false)
    }
}

pub fn gen_opts(r: &mut Rng) -> Opts {
    for _ in 0..50 {
        let mut p = Pools::new();
        let root = gen_level(r, &mut p, 0);
        let mut o = Opts::plain(root);
        if r.chance(1, 3) {
            o.version = Some("1.0");
        }
        if r.chance(1, 3) {
            o.descr = Some("description");
        }
        o.fallback_to_usage = r.chance(1, 5);
        if index(&o).iter().any(|i| !i.named.envs.is_empty()) && exec::build_checked(&o).is_some() {
            return o;
        }
    }
    Opts::plain(Shape::Arg {
        named: Named {
            shorts: vec!['a'],
            longs: vec![],
            envs: vec!["BPAF_V_A"],
            help: None,
        },
        metavar: "A",
        ty: Ty::Int,
        adjacent: false,
    })
}

// ---------------------------------------------------------------------------------------------
// static facts about a definition

#[derive(Clone, Copy, Debug, PartialEq, Eq, PartialOrd, Ord)]
pub enum Ctx {
    /// field of the plain sequential construct of its command level
    Simple,
    /// additionally below one or more choices between alternatives
    Alt,
    /// inside a group that is itself repeated, optional, adjacent, ...
    Other,
}

#[derive(Clone, Debug)]
pub struct Item {
    /// pre-order index of the leaf among all nodes of the definition
    pub id: usize,
    pub level: usize,
    pub ctx: Ctx,
    pub named: Named,
    pub is_flag: bool,
    /// the value a `req_flag` yields when present (what a `guard` on it sees)
    pub present: Option<i64>,
    pub ty: Ty,
    pub adjacent_arg: bool,
    /// wrappers directly on the leaf, innermost first
    pub stack: Vec<W>,
    /// member of an adjacent group: (node id of the group, index among its members)
    pub group: Option<(usize, usize)>,
    /// one of its variables is declared by another item too
    pub shared_env: bool,
    /// branch of a choice between alternatives: (node id of the choice, every branch of it is a
    /// single item that cannot succeed on nothing - a required flag/argument under nothing but
    /// guard/parse/map/hide)
    pub alt: Option<(usize, bool)>,
}

#[derive(Clone, Debug)]
pub struct Level {
    pub parent: Option<usize>,
    /// names by which the command is entered (empty for the top level)
    pub names: Vec<String>,
    pub fallback_to_usage: bool,
    pub help_tokens: Vec<Tok>,
    pub has_positional: bool,
    /// the command itself sits in a context where it may be parsed more than once or not at all
    pub odd_context: bool,
}

pub struct Index {
    pub items: Vec<Item>,
    pub levels: Vec<Level>,
    /// short names of items below a `hide`: bpaf does not see them when it splits clusters
    pub hidden_shorts: Vec<char>,
}

impl Index {
    pub fn iter(&self) -> std::slice::Iter<'_, Item> {
        self.items.iter()
    }
}

fn leaf_chain(s: &Shape) -> bool {
    match s {
        Shape::Wrap(_, i) => leaf_chain(i),
        Shape::Switch(_) | Shape::Flag(..) | Shape::ReqFlag(..) | Shape::Arg { .. } => true,
        _ => false,
    }
}

pub fn index(o: &Opts) -> Index {
    let mut ix = Index {
        items: Vec::new(),
        levels: Vec::new(),
        hidden_shorts: Vec::new(),
    };
    let mut counter = 0usize;
    ix.levels.push(Level {
        parent: None,
        names: vec![],
        fallback_to_usage: o.fallback_to_usage,
        help_tokens: gen::help_tokens(o),
        has_positional: false,
        odd_context: false,
    });
    visit(&o.root, 0, Ctx::Simple, &mut Vec::new(), &mut counter, &mut ix);
    fn hidden(s: &Shape, under_hide: bool, out: &mut Vec<char>) {
        match s {
            Shape::Wrap(w, inner) => hidden(inner, under_hide || matches!(w, W::Hide), out),
            Shape::Seq(xs, _) | Shape::Alt(xs) => {
                for x in xs {
                    hidden(x, under_hide, out)
                }
            }
            Shape::Cmd { opts, .. } => hidden(&opts.root, under_hide, out),
            other => {
                if under_hide {
                    if let Some(n) = other.named() {
                        out.extend(n.shorts.iter().copied());
                    }
                }
            }
        }
    }
    hidden(&o.root, false, &mut ix.hidden_shorts);
    let all: Vec<(usize, Vec<S>)> = ix.items.iter().map(|i| (i.id, i.named.envs.clone())).collect();
    for it in ix.items.iter_mut() {
        it.shared_env = all
            .iter()
            .any(|(id, envs)| *id != it.id && envs.iter().any(|e| it.named.envs.contains(e)));
    }
    ix
}

fn visit(s: &Shape, level: usize, ctx: Ctx, stack: &mut Vec<W>, counter: &mut usize, ix: &mut Index) {
    let id = *counter;
    *counter += 1;
    match s {
        Shape::Switch(n) | Shape::Flag(n, _, _) | Shape::ReqFlag(n, _) => {
            let mut st = stack.clone();
            st.reverse();
            ix.items.push(Item {
                id,
                level,
                ctx,
                named: n.clone(),
                is_flag: true,
                present: match s {
                    Shape::ReqFlag(_, a) => Some(*a),
                    _ => None,
                },
                ty: Ty::Str,
                adjacent_arg: false,
                stack: st,
                group: None,
                shared_env: false,
                alt: None,
            });
        }
        Shape::Arg {
            named, ty, adjacent, ..
        } => {
            let mut st = stack.clone();
            st.reverse();
            ix.items.push(Item {
                id,
                level,
                ctx,
                named: named.clone(),
                is_flag: false,
                present: None,
                ty: *ty,
                adjacent_arg: *adjacent,
                stack: st,
                group: None,
                shared_env: false,
                alt: None,
            });
        }
        Shape::Pos { .. } | Shape::Any { .. } | Shape::Literal { .. } => {
            ix.levels[level].has_positional = true;
        }
        Shape::Pure(_) | Shape::PureWith(_) | Shape::Fail(_) | Shape::Battery(_) => {}
        Shape::Cmd {
            name,
            shorts,
            longs,
            opts,
            adjacent,
            ..
        } => {
            let mut names = vec![name.to_string()];
            names.extend(longs.iter().map(|l| l.to_string()));
            names.extend(shorts.iter().map(|c| c.to_string()));
            ix.levels.push(Level {
                parent: Some(level),
                names,
                fallback_to_usage: opts.fallback_to_usage,
                help_tokens: gen::help_tokens(opts),
                has_positional: false,
                odd_context: ctx == Ctx::Other || *adjacent,
            });
            let nl = ix.levels.len() - 1;
            visit(&opts.root, nl, Ctx::Simple, &mut Vec::new(), counter, ix);
        }
        Shape::Wrap(w, inner) => {
            if leaf_chain(inner) {
                stack.push(w.clone());
                visit(inner, level, ctx, stack, counter, ix);
                stack.pop();
            } else {
                let transparent = matches!(
                    w,
                    W::Hide
                        | W::HideUsage
                        | W::GroupHelp(_)
                        | W::WithGroupHelp(_)
                        | W::CustomUsage(_)
                        | W::Map { .. }
                        | W::Boxed
                );
                // a default or a repetition around a whole choice does not change what each
                // alternative is
                let around_choice = matches!(**inner, Shape::Alt(_))
                    && matches!(
                        w,
                        W::Optional { catch: false } | W::Fallback { .. } | W::FallbackWith { .. }
                    );
                let c = if transparent || around_choice { ctx } else { Ctx::Other };
                visit(inner, level, c, &mut Vec::new(), counter, ix);
            }
        }
        Shape::Seq(fields, adj) => {
            let c = if *adj { Ctx::Other } else { ctx };
            for (k, f) in fields.iter().enumerate() {
                let before = ix.items.len();
                visit(f, level, c, &mut Vec::new(), counter, ix);
                // direct leaf members of an adjacent group remember their place in it
                if *adj && leaf_chain(f) && ix.items.len() == before + 1 {
                    ix.items[before].group = Some((id, k));
                }
            }
        }
        Shape::Alt(alts) => {
            let c = ctx.max(Ctx::Alt);
            fn needy(s: &Shape) -> bool {
                match s {
                    Shape::ReqFlag(..) | Shape::Arg { .. } => true,
                    Shape::Wrap(w, inner) => {
                        matches!(
                            w,
                            W::Guard { .. }
                                | W::Parse { .. }
                                | W::Map { .. }
                                | W::Hide
                                | W::HideUsage
                                | W::GroupHelp(_)
                                | W::Boxed
                                | W::CustomUsage(_)
                        ) && needy(inner)
                    }
                    _ => false,
                }
            }
            let all_needy = alts.iter().all(needy);
            for a in alts {
                let before = ix.items.len();
                visit(a, level, c, &mut Vec::new(), counter, ix);
                if leaf_chain(a) && ix.items.len() == before + 1 && ctx == Ctx::Simple {
                    ix.items[before].alt = Some((id, all_needy));
                }
            }
        }
    }
}

/// rebuild the definition with the leaf `id` transformed
pub fn map_leaf(o: &Opts, id: usize, f: &dyn Fn(&Named) -> Named) -> Opts {
    fn go(s: &Shape, id: usize, counter: &mut usize, f: &dyn Fn(&Named) -> Named) -> Shape {
        let me = *counter;
        *counter += 1;
        match s {
            Shape::Switch(n) if me == id => Shape::Switch(f(n)),
            Shape::Flag(n, a, b) if me == id => Shape::Flag(f(n), *a, *b),
            Shape::ReqFlag(n, a) if me == id => Shape::ReqFlag(f(n), *a),
            Shape::Arg {
                named,
                metavar,
                ty,
                adjacent,
            } if me == id => Shape::Arg {
                named: f(named),
                metavar,
                ty: *ty,
                adjacent: *adjacent,
            },
            Shape::Cmd {
                name,
                shorts,
                longs,
                help,
                adjacent,
                opts,
            } => {
                let mut o2 = (**opts).clone();
                o2.root = go(&opts.root, id, counter, f);
                Shape::Cmd {
                    name,
                    shorts: shorts.clone(),
                    longs: longs.clone(),
                    help: *help,
                    adjacent: *adjacent,
                    opts: Box::new(o2),
                }
            }
            Shape::Wrap(w, inner) => Shape::Wrap(w.clone(), Box::new(go(inner, id, counter, f))),
            Shape::Seq(xs, adj) => Shape::Seq(xs.iter().map(|x| go(x, id, counter, f)).collect(), *adj),
            Shape::Alt(xs) => Shape::Alt(xs.iter().map(|x| go(x, id, counter, f)).collect()),
            other => other.clone(),
        }
    }
    let mut o2 = o.clone();
    let mut counter = 0;
    o2.root = go(&o.root, id, &mut counter, f);
    o2
}

/// the definition with `fallback_to_usage` switched off at one command level (levels are
/// numbered the way `index` numbers them: 0 = top, then commands in pre-order)
pub fn without_usage_fallback(o: &Opts, level: usize) -> Opts {
    fn go(s: &Shape, level: usize, counter: &mut usize) -> Shape {
        match s {
            Shape::Cmd {
                name,
                shorts,
                longs,
                help,
                adjacent,
                opts,
            } => {
                *counter += 1;
                let mut o2 = (**opts).clone();
                if *counter == level {
                    o2.fallback_to_usage = false;
                }
                o2.root = go(&opts.root, level, counter);
                Shape::Cmd {
                    name,
                    shorts: shorts.clone(),
                    longs: longs.clone(),
                    help: *help,
                    adjacent: *adjacent,
                    opts: Box::new(o2),
                }
            }
            Shape::Wrap(w, inner) => Shape::Wrap(w.clone(), Box::new(go(inner, level, counter))),
            Shape::Seq(xs, adj) => Shape::Seq(xs.iter().map(|x| go(x, level, counter)).collect(), *adj),
            Shape::Alt(xs) => Shape::Alt(xs.iter().map(|x| go(x, level, counter)).collect()),
            other => other.clone(),
        }
    }
    let mut o2 = o.clone();
    if level == 0 {
        o2.fallback_to_usage = false;
    }
    let mut counter = 0;
    o2.root = go(&o.root, level, &mut counter);
    o2
}

// ---------------------------------------------------------------------------------------------
// command lines the oracles fully understand

#[derive(Clone, Debug, Default)]
pub struct LineInfo {
    /// item id -> how many times it is spelled on the line, at its own level
    pub occurrences: BTreeMap<usize, usize>,
    /// level -> index in argv where that level's own items begin
    pub level_start: BTreeMap<usize, usize>,
    /// (item id, first token index, one past its last token) for every occurrence
    pub spans: Vec<(usize, usize, usize)>,
    /// clusters of short flags understood on the line
    pub clusters: usize,
    /// the line has a `--`; everything behind it is positional
    pub double_dash: bool,
    /// words behind a command name that an item of an enclosing level claims
    pub claimed_by_outer_level: usize,
    /// items of the inner level that are spelled like such a word
    pub shadowed: Vec<usize>,
}

fn spellings(n: &Named) -> (Vec<Vec<u8>>, Vec<Vec<u8>>) {
    let shorts = n
        .shorts
        .iter()
        .map(|c| format!("-{}", c).into_bytes())
        .collect();
    let longs = n
        .longs
        .iter()
        .map(|l| format!("--{}", l).into_bytes())
        .collect();
    (shorts, longs)
}

/// `None` unless every token is accounted for by the definition in the plainest way: named
/// items spelled `-s`, `-s VAL`, `-s=VAL`, `--long`, `--long VAL`, `--long=VAL` with values that
/// do not start with a dash, positionals only where the level has one, a command name entering
/// the next level, no `--`, no help/version request, no clusters, unique names per level
pub fn scan(ix: &Index, argv: &[Tok]) -> Option<LineInfo> {
    let mut info = LineInfo::default();
    let mut level = 0usize;
    info.level_start.insert(0, 0);
    let mut i = 0;
    while i < argv.len() {
        let tok = &argv[i];
        if ix.levels[level].help_tokens.iter().any(|h| h == tok) {
            return None;
        }
        if tok == b"--" {
            // everything behind it is positional: understood only if this level takes
            // positionals and nothing behind it could be a command
            if !ix.levels[level].has_positional || i + 1 == argv.len() {
                return None;
            }
            info.double_dash = true;
            break;
        }
        if tok.is_empty() || tok.starts_with(b"--bpaf-") {
            return None;
        }
        if tok[0] == b'-' {
            if tok.len() < 2 {
                return None;
            }
            let tok_start = i;
            // which item of this level does it spell?
            let mut hit: Option<(&Item, Option<Vec<u8>>)> = None;
            for it in ix.items.iter().filter(|it| it.level == level) {
                let (shorts, longs) = spellings(&it.named);
                for l in &longs {
                    if tok == l {
                        hit = Some((it, None));
                    } else if tok.starts_with(l) && tok.get(l.len()) == Some(&b'=') {
                        hit = Some((it, Some(tok[l.len() + 1..].to_vec())));
                    }
                }
                for s in &shorts {
                    if tok == s {
                        hit = Some((it, None));
                    } else if tok.starts_with(s) && tok.get(s.len()) == Some(&b'=') {
                        hit = Some((it, Some(tok[s.len() + 1..].to_vec())));
                    }
                }
                if hit.is_some() && level > 0 {
                    // a name that an enclosing level accepts too: the outer item is evaluated
                    // first and may or may not claim this token
                    let mut anc = ix.levels[level].parent;
                    let mut shared = false;
                    while let Some(a) = anc {
                        shared |= ix.items.iter().filter(|o| o.level == a).any(|o| {
                            let (os, ol) = spellings(&o.named);
                            os.iter().chain(ol.iter()).any(|n| {
                                tok == n || (tok.starts_with(n) && tok.get(n.len()) == Some(&b'='))
                            })
                        });
                        anc = ix.levels[a].parent;
                    }
                    if shared {
                        // The enclosing level is evaluated first. When exactly one item out
                        // there accepts this word, and it is a plain single-use field that has
                        // not had its occurrence yet, that item claims the word although it
                        // stands behind the command name; everything else stays ambiguous.
                        let inner_is_flag = it.is_flag;
                        let mut claimers: Vec<&Item> = Vec::new();
                        let mut anc = ix.levels[level].parent;
                        while let Some(a) = anc {
                            claimers.extend(ix.items.iter().filter(|o| o.level == a).filter(|o| {
                                let (os, ol) = spellings(&o.named);
                                os.iter().chain(ol.iter()).any(|n| {
                                    tok == n || (tok.starts_with(n) && tok.get(n.len()) == Some(&b'='))
                                })
                            }));
                            anc = ix.levels[a].parent;
                        }
                        let single_use = |o: &Item| {
                            o.ctx == Ctx::Simple
                                && o.group.is_none()
                                && !o.adjacent_arg
                                && o.is_flag == inner_is_flag
                                // (under `catch` a value that does not convert is put back)
                                && !o.stack.iter().any(|w| {
                                    matches!(
                                        w,
                                        W::Optional { catch: true }
                                            | W::Many { catch: true }
                                            | W::Some_ { catch: true, .. }
                                            | W::Collect { catch: true }
                                    )
                                })
                                && !o.stack.iter().any(|w| {
                                    matches!(
                                        w,
                                        W::Many { .. } | W::Some_ { .. } | W::Collect { .. } | W::Count | W::Last
                                    )
                                })
                        };
                        match claimers[..] {
                            [o] if single_use(o)
                                && !it.adjacent_arg
                                && info.occurrences.get(&o.id).copied().unwrap_or(0) == 0 =>
                            {
                                let attached = hit.as_ref().unwrap().1.clone();
                                hit = Some((o, attached));
                                info.claimed_by_outer_level += 1;
                                info.shadowed.push(it.id);
                                break;
                            }
                            _ => return None,
                        }
                    }
                }
                if hit.is_some() {
                    // names must be unambiguous within the level - except for the pairing of
                    // an adjacent-only argument with a flag of the same names, where the
                    // spelling decides: attached value = the argument, bare = the flag
                    let others: Vec<&Item> = ix
                        .items
                        .iter()
                        .filter(|o| o.level == level && o.id != it.id)
                        .filter(|o| {
                            o.named.shorts.iter().any(|c| it.named.shorts.contains(c))
                                || o.named.longs.iter().any(|l| it.named.longs.contains(l))
                        })
                        .collect();
                    match others.len() {
                        0 => {}
                        1 => {
                            let o = others[0];
                            let attached = hit.as_ref().unwrap().1.clone();
                            let plain = |x: &Item| {
                                x.is_flag && x.ctx == Ctx::Simple && x.stack.is_empty() && x.group.is_none()
                            };
                            if plain(it) && plain(o) && it.named == o.named {
                                // the same flag declared twice as two plain fields: they are
                                // evaluated in declaration order, each takes one occurrence
                                let (a, b) = if it.id < o.id { (it, o) } else { (o, it) };
                                let taken = |x: &Item| info.occurrences.get(&x.id).copied().unwrap_or(0);
                                hit = Some(if taken(a) == 0 {
                                    (a, attached)
                                } else if taken(b) == 0 {
                                    (b, attached)
                                } else {
                                    return None;
                                });
                                break;
                            }
                            let (arg, flag) = if it.adjacent_arg && o.is_flag {
                                (it, o)
                            } else if o.adjacent_arg && it.is_flag {
                                (o, it)
                            } else {
                                return None;
                            };
                            hit = Some(if attached.is_some() {
                                (arg, attached)
                            } else {
                                (flag, None)
                            });
                        }
                        _ => return None,
                    }
                    break;
                }
            }
            if hit.is_none() && !tok.starts_with(b"--") && tok.len() > 2 && !tok.contains(&b'=') {
                // a cluster: every letter a short flag of this level (and of no enclosing one)
                let text = std::str::from_utf8(&tok[1..]).ok()?;
                let mut members: Vec<usize> = Vec::new();
                for c in text.chars() {
                    // bpaf splits a cluster by looking at the short names of the WHOLE
                    // definition: a letter that is an argument's name anywhere changes how the
                    // word is read (value attached, or an ambiguity error)
                    if ix.items.iter().any(|o| !o.is_flag && o.named.shorts.contains(&c))
                        || ix.hidden_shorts.contains(&c)
                    {
                        return None;
                    }
                    let mut owners = ix
                        .items
                        .iter()
                        .filter(|o| o.named.shorts.contains(&c))
                        .filter(|o| o.level == level || is_ancestor(ix, o.level, level));
                    let first = owners.next()?;
                    // (a member of an adjacent group inside a cluster shares its word with
                    // strangers: block positions are no longer words)
                    if owners.next().is_some()
                        || first.level != level
                        || !first.is_flag
                        || first.group.is_some()
                    {
                        return None;
                    }
                    members.push(first.id);
                }
                for id in members {
                    *info.occurrences.entry(id).or_insert(0) += 1;
                    info.spans.push((id, tok_start, i + 1));
                }
                info.clusters += 1;
                i += 1;
                continue;
            }
            let (it, attached) = hit?;
            if it.is_flag {
                if attached.is_some() {
                    return None;
                }
            } else if attached.is_none() {
                if it.adjacent_arg {
                    // `--flag VAL` does not spell an adjacent-restricted argument
                    return None;
                }
                // value is the next token
                let v = argv.get(i + 1)?;
                if v.first() == Some(&b'-') {
                    return None;
                }
                i += 1;
            }
            *info.occurrences.entry(it.id).or_insert(0) += 1;
            info.spans.push((it.id, tok_start, i + 1));
            i += 1;
            continue;
        }
        // a bare word: command of this level, or a positional
        let word = String::from_utf8_lossy(tok).to_string();
        let sub = ix
            .levels
            .iter()
            .enumerate()
            .find(|(_, l)| l.parent == Some(level) && l.names.iter().any(|n| *n == word));
        if let Some((li, l)) = sub {
            if l.odd_context {
                return None;
            }
            level = li;
            info.level_start.insert(li, i + 1);
            i += 1;
            continue;
        }
        if ix.levels[level].has_positional {
            i += 1;
            continue;
        }
        return None;
    }
    Some(info)
}

/// does an item of an enclosing level accept one of this item's names?
fn shares_name_with_ancestor(ix: &Index, it: &Item) -> bool {
    let mut anc = ix.levels[it.level].parent;
    while let Some(a) = anc {
        if ix.items.iter().filter(|o| o.level == a).any(|o| {
            o.named.shorts.iter().any(|c| it.named.shorts.contains(c))
                || o.named.longs.iter().any(|l| it.named.longs.contains(l))
        }) {
            return true;
        }
        anc = ix.levels[a].parent;
    }
    false
}

fn is_ancestor(ix: &Index, anc: usize, of: usize) -> bool {
    let mut cur = ix.levels[of].parent;
    while let Some(a) = cur {
        if a == anc {
            return true;
        }
        cur = ix.levels[a].parent;
    }
    false
}

fn value_token(r: &mut Rng, ty: Ty, invalid: bool) -> Tok {
    if invalid {
        return r
            .pick(&[b"x".to_vec(), b"13".to_vec(), b"99".to_vec(), b"bad".to_vec(), vec![b'v', 0xff], b"1.5".to_vec()][..])
            .clone();
    }
    match ty {
        Ty::Int | Ty::Num => r.pick(&[b"1".to_vec(), b"2".to_vec(), b"30".to_vec()][..]).clone(),
        Ty::Str => r.pick(&[b"foo".to_vec(), b"bar".to_vec(), b"7".to_vec()][..]).clone(),
        Ty::Os | Ty::Path => r.pick(&[b"foo".to_vec(), vec![b'o', 0xff]][..]).clone(),
    }
}

fn spell_item(r: &mut Rng, it: &Item, invalid: bool) -> Vec<Tok> {
    let mut names: Vec<Vec<u8>> = Vec::new();
    let (s, l) = spellings(&it.named);
    names.extend(s);
    names.extend(l);
    if names.is_empty() {
        return vec![];
    }
    let name = r.pick(&names).clone();
    if it.is_flag {
        return vec![name];
    }
    let v = value_token(r, it.ty, invalid);
    if it.adjacent_arg || r.chance(1, 2) {
        let mut t = name;
        t.push(b'=');
        t.extend_from_slice(&v);
        vec![t]
    } else {
        vec![name, v]
    }
}

/// a plain sentence: each level's items in random order, then possibly a command
pub fn gen_line(r: &mut Rng, o: &Opts, ix: &Index, allow_invalid: bool) -> Vec<Tok> {
    let mut out = Vec::new();
    let mut level = 0usize;
    loop {
        let mut groups: Vec<Vec<Tok>> = Vec::new();
        // alternatives: usually spell one branch only. Approximation: spell each item with a
        // probability that depends on its context
        // adjacent groups: zero to two contiguous blocks, members in declaration order; a
        // member whose variable may stand in for it is sometimes left out
        let mut group_ids: Vec<usize> = ix
            .items
            .iter()
            .filter(|it| it.level == level)
            .filter_map(|it| it.group.map(|g| g.0))
            .collect();
        group_ids.sort_unstable();
        group_ids.dedup();
        for gid in &group_ids {
            let mut members: Vec<&Item> = ix
                .items
                .iter()
                .filter(|it| it.group.map(|g| g.0) == Some(*gid))
                .collect();
            members.sort_by_key(|it| it.group.unwrap().1);
            let blocks = *r.pick(&[0usize, 1, 1, 1, 2][..]);
            for _ in 0..blocks {
                let mut block: Vec<Tok> = Vec::new();
                for m in &members {
                    let backed = !m.named.envs.is_empty();
                    let optional = !m.stack.is_empty() || m.is_flag && m.group.unwrap().1 > 0;
                    let skip = if backed {
                        r.chance(1, 2)
                    } else if optional {
                        r.chance(1, 3)
                    } else {
                        r.chance(1, 12)
                    };
                    if skip {
                        continue;
                    }
                    let inv = allow_invalid && r.chance(1, 10);
                    block.extend(spell_item(r, m, inv));
                }
                if !block.is_empty() {
                    groups.push(block);
                }
            }
        }
        for it in ix
            .items
            .iter()
            .filter(|it| it.level == level && it.group.is_none())
        {
            let p = match it.ctx {
                Ctx::Simple => 4,
                Ctx::Alt => 3,
                Ctx::Other => 4,
            };
            if !r.chance(p, 8) {
                continue;
            }
            let repeated = it.stack.iter().any(|w| {
                matches!(
                    w,
                    W::Many { .. } | W::Some_ { .. } | W::Collect { .. } | W::Count | W::Last
                )
            });
            let n = if repeated {
                r.range(1, 3)
            } else if r.chance(1, 10) {
                2
            } else {
                1
            };
            for _ in 0..n {
                let inv = allow_invalid && r.chance(1, 8);
                let toks = spell_item(r, it, inv);
                if !toks.is_empty() {
                    groups.push(toks);
                }
            }
        }
        for i in (1..groups.len()).rev() {
            let j = r.below(i + 1);
            groups.swap(i, j);
        }
        // sometimes fuse neighbouring single short flags into a cluster
        let mut fused: Vec<Vec<Tok>> = Vec::new();
        for g in groups {
            let single_short = g.len() == 1
                && g[0].len() == 2
                && g[0][0] == b'-'
                && g[0][1].is_ascii_alphabetic();
            if single_short && r.chance(1, 3) {
                if let Some(prev) = fused.last_mut() {
                    if prev.len() == 1
                        && prev[0].len() >= 2
                        && prev[0][0] == b'-'
                        && prev[0][1..].iter().all(|b| b.is_ascii_alphabetic())
                    {
                        prev[0].push(g[0][1]);
                        continue;
                    }
                }
            }
            fused.push(g);
        }
        out.extend(fused.into_iter().flatten());
        if ix.levels[level].has_positional && r.chance(3, 4) {
            if r.chance(1, 6) {
                out.push(b"--".to_vec());
                // behind `--` a word may look like anything, also like one of the items
                let named: Vec<&Item> = ix.items.iter().filter(|it| it.level <= level).collect();
                if !named.is_empty() && r.chance(1, 2) {
                    let it = *r.pick(&named);
                    if let Some(w) = spell_item(r, it, false).into_iter().next() {
                        out.push(w);
                    } else {
                        out.push(b"file".to_vec());
                    }
                } else {
                    out.push(b"file".to_vec());
                }
            } else {
                out.push(b"file".to_vec());
            }
        }
        let subs: Vec<usize> = ix
            .levels
            .iter()
            .enumerate()
            .filter(|(_, l)| l.parent == Some(level))
            .map(|(i, _)| i)
            .collect();
        if subs.is_empty() || !r.chance(3, 4) {
            break;
        }
        let li = *r.pick(&subs);
        out.push(r.pick(&ix.levels[li].names).clone().into_bytes());
        level = li;
    }
    let _ = o;
    out
}

// ---------------------------------------------------------------------------------------------
// cases

pub fn gen_case(seed: u64, run: u64, faults: bool) -> Case {
    let mut r = Rng::new(mix(seed, run));
    let n_parsers = if r.chance(1, 4) { 2 } else { 1 };
    let parsers: Vec<Opts> = (0..n_parsers).map(|_| gen_opts(&mut r)).collect();
    let state = |r: &mut Rng| -> EnvState {
        if faults {
            gen::env_state(r)
        } else if r.chance(1, 2) {
            EnvState::Valid
        } else {
            EnvState::Unset
        }
    };
    let mut env: Vec<(Tok, Tok)> = Vec::new();
    for o in &parsers {
        for name in o.declared_envs() {
            let st = state(&mut r);
            if let Some(v) = gen::env_value(&mut r, st) {
                env.retain(|(k, _)| k != name.as_bytes());
                env.push((name.as_bytes().to_vec(), v));
            }
        }
    }
    for name in gen::LOOKALIKE_ENVS {
        if r.chance(1, 10) {
            env.push((name.as_bytes().to_vec(), b"9".to_vec()));
        }
    }
    let mut live = parsers.clone();
    let n_ops = r.range(2, 10);
    let mut ops = Vec::new();
    for _ in 0..n_ops {
        let p = r.below(live.len());
        let ix = index(&live[p]);
        let op = match r.below(20) {
            0..=8 => Op::Run {
                p,
                argv: gen_line(&mut r, &live[p], &ix, faults),
                name: None,
                comp: None,
                cb: None,
            },
            9..=10 => {
                let mut argv = gen_line(&mut r, &live[p], &ix, faults);
                if r.chance(1, 4) {
                    // nothing but a request for the top level's help
                    let h = match &live[p].help_names {
                        None => vec![b"--help".to_vec(), b"-h".to_vec()],
                        Some(n) => gen::all_spellings(n),
                    };
                    argv = vec![r.pick(&h).clone()];
                    if r.chance(1, 4) {
                        argv.push(r.pick(&h).clone());
                    }
                } else if faults {
                    gen::mutate(&mut r, &live[p], &mut argv);
                } else {
                    // help somewhere
                    let h = gen::help_tokens(&live[p]);
                    let at = r.below(argv.len() + 1);
                    argv.insert(at, r.pick(&h).clone());
                }
                // shell completion with variables set: only R0, R1 and R7 apply to it
                let comp = if r.chance(1, 5) {
                    argv = gen::comp_argv(&mut r, &live[p]);
                    Some(*r.pick(&[0usize, 1, 7, 8, 9][..]))
                } else {
                    None
                };
                Op::Run {
                    p,
                    argv,
                    name: if r.chance(1, 2) {
                        Some("app".to_string())
                    } else {
                        None
                    },
                    comp,
                    cb: None,
                }
            }
            11..=18 => {
                let declared = live[p].declared_envs();
                let name: Tok = if !declared.is_empty() && r.chance(4, 5) {
                    r.pick(&declared).as_bytes().to_vec()
                } else {
                    r.pick(gen::LOOKALIKE_ENVS).as_bytes().to_vec()
                };
                let st = state(&mut r);
                Op::SetEnv {
                    name,
                    val: gen::env_value(&mut r, st),
                }
            }
            _ => {
                let o = gen_opts(&mut r);
                live.push(o.clone());
                Op::NewParser { opts: o }
            }
        };
        ops.push(op);
    }
    Case {
        prop: "C18".into(),
        seed,
        run,
        parsers,
        env,
        ops,
        interlude: Vec::new(),
    }
}

// ---------------------------------------------------------------------------------------------
// oracles

fn describe(o: &Obs) -> String {
    exec::clip(&format!("{:?}", o.outcome), 500)
}

/// what a failure says about a converted/validated value, with the quoting of the offending
/// word removed: `couldn't parse `x`: TEXT` and `couldn't parse: TEXT` both give `TEXT`,
/// `` `13`: MSG `` and `check failed: MSG` both give `MSG`
fn conversion_text(msg: &str) -> Option<String> {
    let m = msg.trim_end();
    if let Some(rest) = m.strip_prefix("couldn't parse") {
        if let Some(t) = rest.strip_prefix(": ") {
            return Some(t.to_string());
        }
        if rest.starts_with(" `") {
            if let Some(ix) = rest.find("`: ") {
                return Some(rest[ix + 3..].to_string());
            }
        }
        return Some(rest.to_string());
    }
    if let Some(t) = m.strip_prefix("check failed: ") {
        return Some(t.to_string());
    }
    if m.starts_with('`') {
        if let Some(ix) = m.find("`: ") {
            return Some(m[ix + 3..].to_string());
        }
    }
    None
}

/// R3's equivalence: same class, same value; failures carry the same conversion/guard text
fn equivalent(a: &Obs, b: &Obs) -> bool {
    match (&a.outcome, &b.outcome) {
        (Outcome::Value(x), Outcome::Value(y)) => x == y,
        (Outcome::Stderr(x), Outcome::Stderr(y)) => {
            match (conversion_text(x), conversion_text(y)) {
                (Some(p), Some(q)) => p == q,
                (None, None) => true,
                // one side complains about a value, the other about something else
                _ => false,
            }
        }
        (x, y) => x == y,
    }
}

/// does this value survive the item's own conversion and validation? (harness knowledge of the
/// types and of its own callbacks; `None` = cannot say)
fn value_is_invalid(it: &Item, v: &[u8]) -> Option<bool> {
    let utf8 = std::str::from_utf8(v).ok();
    let mut cur: val::Val = if it.is_flag {
        // a flag takes nothing from the value of its variable; what can fail is a `guard` or
        // `parse` on what a `req_flag` yields when present
        match it.present {
            Some(n) => val::Val::Int(n),
            None => return Some(false),
        }
    } else {
        match it.ty {
        Ty::Os | Ty::Path => val::Val::Os(v.to_vec()),
        Ty::Str => match utf8 {
            Some(s) => val::Val::Str(s.to_string()),
            None => return Some(true),
        },
        Ty::Int | Ty::Num => match utf8.and_then(|s| s.parse::<i64>().ok()) {
            Some(n) => val::Val::Int(n),
            None => return Some(true),
        },
        }
    };
    // walk the wrappers that sit directly on the leaf, up to the first one that changes shape
    for w in &it.stack {
        match w {
            W::Guard { kind, .. } => {
                if !val::guard_ok(*kind, &cur) {
                    return Some(true);
                }
            }
            W::Parse { kind } => match val::parse_fn(*kind, cur.clone()) {
                Ok(v) => cur = v,
                Err(_) => return Some(true),
            },
            W::Map { tag } => cur = val::Val::Tag(*tag, Box::new(cur)),
            W::Hide | W::HideUsage | W::GroupHelp(_) | W::Boxed | W::CustomUsage(_) => {}
            _ => return Some(false),
        }
    }
    Some(false)
}

/// the value is invalid for the leaf (or for the guard/parse callbacks that sit directly on it)
/// and the first wrapper above those is one with `catch`
fn invalid_inside_catch(it: &Item, v: &[u8]) -> bool {
    if value_is_invalid(it, v) != Some(true) {
        return false;
    }
    for w in &it.stack {
        match w {
            W::Guard { .. }
            | W::Parse { .. }
            | W::Map { .. }
            | W::Hide
            | W::HideUsage
            | W::GroupHelp(_)
            | W::Boxed
            | W::CustomUsage(_) => {}
            W::Optional { catch: true }
            | W::Many { catch: true }
            | W::Some_ { catch: true, .. }
            | W::Collect { catch: true } => return true,
            _ => return false,
        }
    }
    false
}

struct Live {
    opts: Opts,
    parser: bpaf::OptionParser<val::Val>,
    ix: Index,
}

fn run_on(l: &Live, op: &Op) -> Obs {
    match op {
        Op::Run {
            argv, name, comp, ..
        } => exec::run_inner(&l.parser, argv, name, *comp, None, BUDGET),
        _ => unreachable!(),
    }
}

fn with_env_removed<R>(names: &[S], f: impl FnOnce() -> R) -> R {
    let saved = world::with(|s| {
        let saved = s.env.clone();
        for n in names {
            s.env.remove(n.as_bytes());
        }
        saved
    });
    let r = f();
    world::with(|s| s.env = saved);
    r
}

/// equal results, except that two help/usage texts need not be equal: help shows the state of
/// the variables (`[env:NAME = ..]`), which is exactly what the compared runs vary
fn same_modulo_help(a: &Obs, b: &Obs) -> bool {
    if let (Outcome::Stdout(_), Outcome::Stdout(_)) = (&a.outcome, &b.outcome) {
        return a.out == b.out && a.err == b.err;
    }
    a.same_result(b)
}

fn first_set(named: &Named) -> Option<(S, Vec<u8>)> {
    world::with(|s| {
        named
            .envs
            .iter()
            .find_map(|e| s.env.get(e.as_bytes()).map(|v| (*e, v.clone())))
    })
}

pub fn run_case(case: &Case, stats: &mut Stats) -> RunReport {
    let mut report = RunReport::default();
    let mut h = Fnv::new();
    world::with(|s| {
        s.env.clear();
        for (k, v) in &case.env {
            s.env.insert(k.clone(), v.clone());
        }
    });
    let mut live: Vec<Live> = Vec::new();
    for o in &case.parsers {
        match exec::build_checked(o) {
            Some(parser) => live.push(Live {
                opts: o.clone(),
                parser,
                ix: index(o),
            }),
            None => {
                report.invalid = true;
                return report;
            }
        }
    }
    let mut set_reads = 0u64;
    let mut relational = 0u64;
    macro_rules! violation {
        ($rule:expr, $ix:expr, $key:expr, $detail:expr) => {{
            let key: String = $key;
            if crate::is_known("C18", &key) {
                // a recorded finding: count it and carry on with the run
                stats.bump(&format!("known-finding.{}", key));
            } else {
                report.violation = Some(Violation {
                    rule: $rule.to_string(),
                    op_index: $ix,
                    key,
                    detail: $detail,
                });
                report.hash = h.finish();
                return report;
            }
        }};
    }
    for (opi, op) in case.ops.iter().enumerate() {
        match op {
            Op::SetEnv { name, val } => {
                stats.bump("op.setenv");
                let class = match val {
                    None => "unset",
                    Some(v) if v.is_empty() => "empty",
                    Some(v) if std::str::from_utf8(v).is_err() => "non-utf8",
                    Some(v) if std::str::from_utf8(v).unwrap().parse::<i64>().map_or(true, |n| n == 13 || n == 99) => "invalid",
                    Some(_) => "valid",
                };
                stats.bump(&format!("fault.env_{}.applied", class));
                world::with(|s| match val {
                    Some(v) => {
                        s.env.insert(name.clone(), v.clone());
                    }
                    None => {
                        s.env.remove(name);
                    }
                });
                h.write_str("setenv");
                continue;
            }
            Op::NewParser { opts } => {
                stats.bump("op.newparser");
                if let Some(parser) = exec::build_checked(opts) {
                    live.push(Live {
                        opts: opts.clone(),
                        parser,
                        ix: index(opts),
                    });
                }
                continue;
            }
            Op::Run { p, argv, .. } => {
                if *p >= live.len() {
                    continue;
                }
                let l = &live[*p];
                stats.bump("op.run");
                let first = run_on(l, op);
                stats.add("ticks.total", first.ticks);
                stats.max("ticks.max_per_op", first.ticks);
                stats.bump(&format!("outcome.{}", first.outcome.class()));
                h.write_str(&format!("{:?}", first.outcome));
                report
                    .trace
                    .push(format!("op {} run: {}", opi, describe(&first)));
                h.write(&first.out);
                h.write(&first.err);
                let n_set = first.env_reads.iter().filter(|r| r.1).count() as u64;
                set_reads += n_set;
                if n_set > 0 {
                    stats.bump("probe.read_found_variable_set");
                }
                {
                    let mut seen = std::collections::BTreeSet::new();
                    if first.env_reads.iter().any(|r| !seen.insert(r.0.clone())) {
                        stats.bump("probe.same_variable_read_twice_in_one_run");
                    }
                }
                if matches!(first.outcome, Outcome::Stdout(_)) && n_set > 0 {
                    stats.bump("probe.help_rendered_with_variable_set");
                }
                if first.outcome.abnormal() {
                    violation!(
                        "R0",
                        opi,
                        format!("rule=R0 class={}", first.outcome.class()),
                        format!("abnormal end of run_inner: {}", describe(&first))
                    );
                }
                // ---- R1: only declared names are read, undeclared ones are invisible
                let declared = l.opts.declared_envs();
                for (name, _) in &first.env_reads {
                    if !declared.iter().any(|d| d.as_bytes() == &name[..]) {
                        violation!(
                            "R1",
                            opi,
                            "rule=R1 reads=undeclared".to_string(),
                            format!(
                                "read undeclared environment variable {:?}; declared: {:?}",
                                String::from_utf8_lossy(name),
                                declared
                            )
                        );
                    }
                }
                stats.bump("rule.R1.evaluated");
                let saved = crate::c04::scramble_undeclared(&declared);
                let framed = run_on(l, op);
                crate::c04::unscramble(&declared, saved);
                if !framed.same_result(&first) {
                    violation!(
                        "R1",
                        opi,
                        "rule=R1 differs=undeclared-env".to_string(),
                        format!(
                            "as is    : {}\nscrambled: {}",
                            describe(&first),
                            describe(&framed)
                        )
                    );
                }
                // ---- R7: no memory - a fresh twin under the current environment agrees
                // a fixed sample of twins runs on a brand new thread (see c04.rs)
                let fresh = if (case.run + opi as u64) % 32 == 0 {
                    stats.bump("probe.twin_on_fresh_thread");
                    let opts = l.opts.clone();
                    let op2 = op.clone();
                    let env = world::with(|s| s.env.clone());
                    exec::on_fresh_thread(env, move || {
                        let twin = Live {
                            parser: exec::build_unchecked(&opts),
                            ix: index(&opts),
                            opts,
                        };
                        run_on(&twin, &op2)
                    })
                } else {
                    let twin = Live {
                        opts: l.opts.clone(),
                        parser: exec::build_unchecked(&l.opts),
                        ix: index(&l.opts),
                    };
                    run_on(&twin, op)
                };
                stats.bump("rule.R7.evaluated");
                if !fresh.same_result(&first) {
                    violation!(
                        "R7",
                        opi,
                        "rule=R7".to_string(),
                        format!(
                            "long-lived: {}\nfresh twin: {}",
                            describe(&first),
                            describe(&fresh)
                        )
                    );
                }
                if let Op::Run { comp: Some(_), .. } = op {
                    stats.bump("probe.completion_with_declared_variables");
                    continue;
                }
                // ---- R14: help shows the value of a variable, it never interprets it: on a
                // line that only asks the top level for help, giving one variable another value
                // changes a stretch of the text no longer than the values themselves
                let root_help: Vec<Tok> = match &l.opts.help_names {
                    None => vec![b"--help".to_vec(), b"-h".to_vec()],
                    Some(n) => gen::all_spellings(n),
                };
                if !argv.is_empty()
                    && argv.iter().all(|t| root_help.contains(t))
                    && matches!(first.outcome, Outcome::Stdout(_))
                {
                    let mut names: Vec<Tok> = first.env_reads.iter().map(|r| r.0.clone()).collect();
                    names.sort();
                    names.dedup();
                    // R14 (names): the help of the top level mentions the (first) variable of
                    // every visible env-backed item of that level - whatever it says about it
                    if let Outcome::Stdout(text) = &first.outcome {
                        for it in l.ix.iter().filter(|it| {
                            it.level == 0
                                && it.group.is_none()
                                && it.ctx != Ctx::Other
                                && !it.named.envs.is_empty()
                                && (!it.named.shorts.is_empty() || !it.named.longs.is_empty())
                                && !it.stack.iter().any(|w| matches!(w, W::Hide))
                        }) {
                            stats.bump("rule.R14names.evaluated");
                            if !text.contains(it.named.envs[0]) {
                                violation!(
                                    "R14",
                                    opi,
                                    format!("rule=R14 help-omits-variable self={}", if it.is_flag { "flag" } else { "argument" }),
                                    format!(
                                        "item {:?} is visible and backed by {}, yet the help of its level does not mention that variable\n{}",
                                        it.named,
                                        it.named.envs[0],
                                        describe(&first)
                                    )
                                );
                            }
                        }
                    }
                    const PROBES: [&[u8]; 9] = [
                        b"7", b"a\n\nb", b"\n\n", b" x", b"\\", b"\"", b"", b"p\n\n\nq", b"\xff\xfe",
                    ];
                    for (k, name) in names.iter().take(3).enumerate() {
                        let declared_by = l
                            .ix
                            .iter()
                            .filter(|it| it.named.envs.iter().any(|e| e.as_bytes() == &name[..]))
                            .count();
                        if declared_by != 1 {
                            continue;
                        }
                        let old = world::with(|s| s.env.get(name).cloned());
                        let new = PROBES[(case.run as usize + opi + k) % PROBES.len()];
                        if old.as_deref() == Some(new) {
                            continue;
                        }
                        world::with(|s| s.env.insert(name.clone(), new.to_vec()));
                        let other = run_on(l, op);
                        world::with(|s| match &old {
                            Some(v) => {
                                s.env.insert(name.clone(), v.clone());
                            }
                            None => {
                                s.env.remove(name);
                            }
                        });
                        relational += 1;
                        stats.bump("rule.R14.evaluated");
                        // ... and help tells a set variable from an unset one, whatever the
                        // value (not valid UTF-8 included)
                        if old.is_none() {
                            if let (Outcome::Stdout(a), Outcome::Stdout(b)) = (&first.outcome, &other.outcome) {
                                let visible = l.ix.iter().any(|it| {
                                    it.level == 0
                                        && it.group.is_none()
                                        && it.ctx != Ctx::Other
                                        && (!it.named.shorts.is_empty() || !it.named.longs.is_empty())
                                        && !it.stack.iter().any(|w| matches!(w, W::Hide))
                                        && it.named.envs.first().map_or(false, |e| e.as_bytes() == &name[..])
                                });
                                if visible {
                                    stats.bump("rule.R14state.evaluated");
                                    if a == b {
                                        violation!(
                                            "R14",
                                            opi,
                                            "rule=R14 help-ignores-variable-state".to_string(),
                                            format!(
                                                "help is the same whether {} is unset or set to {:?}\n{}",
                                                String::from_utf8_lossy(name),
                                                String::from_utf8_lossy(new),
                                                describe(&first)
                                            )
                                        );
                                    }
                                }
                            }
                        }
                        let (a, b) = match (&first.outcome, &other.outcome) {
                            (Outcome::Stdout(a), Outcome::Stdout(b)) => (a, b),
                            _ => {
                                violation!(
                                    "R14",
                                    opi,
                                    "rule=R14 help-request-not-answered".to_string(),
                                    format!(
                                        "a line that only asks for help is answered with help under one value of {} and not under another\nvalue {:?}: {}\nvalue {:?}: {}",
                                        String::from_utf8_lossy(name),
                                        old.as_ref().map(|v| String::from_utf8_lossy(v).to_string()),
                                        describe(&first),
                                        String::from_utf8_lossy(new),
                                        describe(&other)
                                    )
                                );
                                continue;
                            }
                        };
                        let norm = |t: &str| -> Vec<char> {
                            t.split_whitespace().collect::<Vec<_>>().join(" ").chars().collect()
                        };
                        let (a, b) = (norm(a), norm(b));
                        let pre = a.iter().zip(b.iter()).take_while(|(x, y)| x == y).count();
                        let suf = a[pre..]
                            .iter()
                            .rev()
                            .zip(b[pre..].iter().rev())
                            .take_while(|(x, y)| x == y)
                            .count();
                        let longest = old.as_ref().map_or(0, |v| v.len()).max(new.len());
                        let bound = 8 * longest + 24;
                        if a.len() - pre - suf > bound || b.len() - pre - suf > bound {
                            if new.contains(&b'\n') {
                                stats.bump("probe.help_with_blank_line_in_variable");
                            }
                            violation!(
                                "R14",
                                opi,
                                "rule=R14 value-interpreted-by-help".to_string(),
                                format!(
                                    "help differs in more than the shown value when {} goes from {:?} to {:?}\nbefore: {}\nafter : {}",
                                    String::from_utf8_lossy(name),
                                    old.as_ref().map(|v| String::from_utf8_lossy(v).to_string()),
                                    String::from_utf8_lossy(new),
                                    describe(&first),
                                    describe(&other)
                                )
                            );
                        }
                    }
                }
                // ---- relational rules need a line the oracle fully understands
                let info = match scan(&l.ix, argv) {
                    Some(i) => i,
                    None => {
                        stats.bump("line.not_plain");
                        continue;
                    }
                };
                stats.bump("line.plain");
                if info.claimed_by_outer_level > 0 {
                    stats.bump("probe.word_behind_a_command_claimed_by_an_outer_item");
                }
                // Lines on which an adjacent group has to find its place although its first
                // member - the anchor bpaf searches for - is absent and comes from a variable
                // are subject to the recorded finding about such groups (known_findings.txt):
                // where the block is found depends on what else is on the line. On those
                // lines only that first member itself is judged by the rules that insert
                // tokens; for every other item they would measure the finding again.
                let mut anchor_from_variable: Vec<usize> = Vec::new();
                let mut unanchored_extra_block = false;
                for first in l.ix.iter().filter(|m| matches!(m.group, Some((_, 0)))) {
                    if !info.level_start.contains_key(&first.level) {
                        continue;
                    }
                    let gid = first.group.unwrap().0;
                    let member_ids: Vec<usize> = l
                        .ix
                        .iter()
                        .filter(|o| o.group.map(|g| g.0) == Some(gid))
                        .map(|o| o.id)
                        .collect();
                    // contiguous runs of the group's tokens
                    let mut spans: Vec<(usize, usize, usize)> = info
                        .spans
                        .iter()
                        .filter(|sp| member_ids.contains(&sp.0))
                        .map(|sp| (sp.1, sp.2, sp.0))
                        .collect();
                    spans.sort_unstable();
                    let mut runs: Vec<bool> = Vec::new();
                    let mut prev_end: Option<usize> = None;
                    for (st, en, id) in &spans {
                        if prev_end != Some(*st) {
                            // a block is anchored when it *starts* with the first member
                            runs.push(*id == first.id);
                        }
                        prev_end = Some(*en);
                    }
                    let unanchored = runs.iter().filter(|a| !**a).count();
                    if unanchored > 0 {
                        if runs.len() == 1 {
                            anchor_from_variable.push(first.id);
                        } else {
                            unanchored_extra_block = true;
                        }
                    }
                }
                if !anchor_from_variable.is_empty() || unanchored_extra_block {
                    stats.bump("probe.adjacent_anchor_absent_on_line");
                }
                for it in l.ix.iter().filter(|it| !it.named.envs.is_empty()) {
                    let entered = info.level_start.contains_key(&it.level);
                    let tainted = unanchored_extra_block
                        || (!anchor_from_variable.is_empty() && !anchor_from_variable.contains(&it.id));
                    if !entered {
                        continue;
                    }
                    let occ = info.occurrences.get(&it.id).copied().unwrap_or(0);
                    let set = first_set(&it.named);
                    // a level with fallback_to_usage that sees nothing on its part of the
                    // line answers a failed parse with usage on stdout instead of an error
                    // (words behind the command name that an outer item claimed are gone by the
                    // time the level looks at its part of the line)
                    let usage_level_empty = l.ix.levels[it.level].fallback_to_usage
                        && (info.level_start[&it.level] == argv.len() || info.claimed_by_outer_level > 0);
                    let wrappers = it
                        .stack
                        .iter()
                        .map(|w| w.label())
                        .collect::<Vec<_>>()
                        .join(".");
                    // ---- R2: the line wins
                    // (inside a group that is optional or repeated as a whole a *flag* may be
                    // evaluated more often than it is typed, and then its variable legitimately
                    // shows; an *argument* whose name is on the line never consults it)
                    let in_plain_group =
                        it.ctx == Ctx::Other && !it.is_flag && it.group.is_none() && !it.adjacent_arg;
                    if occ > 0 && (it.ctx != Ctx::Other || in_plain_group) && !it.shared_env {
                        if in_plain_group {
                            stats.bump("probe.R2_argument_inside_a_wrapped_group");
                        }
                        if let Some((_, v)) = &set {
                            let without = with_env_removed(&it.named.envs, || run_on(l, op));
                            stats.bump("rule.R2.evaluated");
                            relational += 1;
                            let inv = value_is_invalid(it, v) == Some(true);
                            if inv {
                                stats.bump("probe.R2_with_invalid_variable");
                            }
                            stats.state(&["R2", &wrappers, if inv { "invalid" } else { "valid" }, first.outcome.class()]);
                            // two failures need not carry the same text when the item sits in
                            // a wrapped group or next to an adjacent group: a group that failed
                            // leaves a narrowed scope behind, and what the rest of a doomed run
                            // then sees (and complains about) is not the line
                            let has_adjacent = l.ix.iter().any(|m| m.group.is_some());
                            let same = if in_plain_group || has_adjacent {
                                match (&without.outcome, &first.outcome) {
                                    (Outcome::Stderr(_), Outcome::Stderr(_)) => true,
                                    _ => same_modulo_help(&without, &first),
                                }
                            } else {
                                same_modulo_help(&without, &first)
                            };
                            if !same {
                                violation!(
                                    "R2",
                                    opi,
                                    format!(
                                        "rule=R2 repetition={} env={}",
                                        it.stack
                                            .iter()
                                            .find(|w| matches!(
                                                w,
                                                W::Many { .. }
                                                    | W::Some_ { .. }
                                                    | W::Collect { .. }
                                                    | W::Count
                                                    | W::Last
                                            ))
                                            .map_or("none".to_string(), |w| w.label()),
                                        if inv { "invalid" } else { "valid" }
                                    ),
                                    format!(
                                        "item {:?} is given on the command line, yet its variable changes the outcome\nvariable set  : {}\nvariable unset: {}",
                                        it.named,
                                        describe(&first),
                                        describe(&without)
                                    )
                                );
                            }
                        }
                    }
                    if occ > 0 {
                        continue;
                    }
                    let named_item = !it.named.shorts.is_empty() || !it.named.longs.is_empty();
                    let has_catch = it.stack.iter().any(|w| {
                        matches!(
                            w,
                            W::Optional { catch: true }
                                | W::Many { catch: true }
                                | W::Some_ { catch: true, .. }
                                | W::Collect { catch: true }
                        )
                    });
                    // ---- R9: an item declared with variables only behaves like the same item
                    // with an (unused) name added: same class, same value, whatever the state
                    // of its variables
                    if !named_item && it.ctx != Ctx::Other && !has_catch && !usage_level_empty {
                        let named_twin = map_leaf(&l.opts, it.id, &|n: &Named| {
                            let mut n = n.clone();
                            n.longs.push("renamed-y");
                            n
                        });
                        let twin = Live {
                            parser: exec::build_unchecked(&named_twin),
                            ix: index(&named_twin),
                            opts: named_twin,
                        };
                        let other = run_on(&twin, op);
                        stats.bump("rule.R9.evaluated");
                        let same = match (&first.outcome, &other.outcome) {
                            (Outcome::Value(a), Outcome::Value(b)) => a == b,
                            (a, b) => a.class() == b.class(),
                        };
                        if !same {
                            violation!(
                                "R9",
                                opi,
                                format!(
                                    "rule=R9 classes={}/{} variable={}",
                                    first.outcome.class(),
                                    other.outcome.class(),
                                    if set.is_some() { "set" } else { "unset" }
                                ),
                                format!(
                                    "item {:?} has no name; giving it an unused one changes the outcome\nwithout a name: {}\nwith a name   : {}",
                                    it.named,
                                    describe(&first),
                                    describe(&other)
                                )
                            );
                        }
                    }
                    match &set {
                        Some((_, v)) => {
                            // ---- R3: variable == typed value
                            // ---- R8: an item that is absent from its own level may be given
                            // any other name; what is typed for a like-named item of an
                            // enclosing level is none of its business
                            if named_item {
                                let renamed = map_leaf(&l.opts, it.id, &|n: &Named| {
                                    let mut n = n.clone();
                                    let fresh_s = ['Y', 'W', 'X'];
                                    let fresh_l: [S; 3] = ["renamed-y", "renamed-w", "renamed-x"];
                                    for (i, c) in n.shorts.iter_mut().enumerate() {
                                        *c = fresh_s[i.min(2)];
                                    }
                                    for (i, lg) in n.longs.iter_mut().enumerate() {
                                        *lg = fresh_l[i.min(2)];
                                    }
                                    n
                                });
                                let twin = Live {
                                    parser: exec::build_unchecked(&renamed),
                                    ix: index(&renamed),
                                    opts: renamed,
                                };
                                let other = run_on(&twin, op);
                                stats.bump("rule.R8.evaluated");
                                let shared = shares_name_with_ancestor(&l.ix, it);
                                if shared {
                                    stats.bump("probe.R8_name_shared_with_outer_level");
                                }
                                let same = match (&first.outcome, &other.outcome) {
                                    (Outcome::Value(a), Outcome::Value(b)) => a == b,
                                    (a, b) => a.class() == b.class(),
                                };
                                if !same {
                                    violation!(
                                        "R8",
                                        opi,
                                        if shared && !it.is_flag {
                                            // one recorded mechanism whatever it does to the
                                            // outcome (known_findings.txt)
                                            "rule=R8 shared-name=true self=argument".to_string()
                                        } else {
                                            format!(
                                                "rule=R8 shared-name={} self={} classes={}/{}",
                                                shared,
                                                if it.is_flag { "flag" } else { "argument" },
                                                first.outcome.class(),
                                                other.outcome.class()
                                            )
                                        },
                                        format!(
                                            "item {:?} is absent from its own command level and its variable is set; renaming the item changes the outcome, so its variable fallback depends on something outside its scope\nas declared: {}\nrenamed    : {}",
                                            it.named,
                                            describe(&first),
                                            describe(&other)
                                        )
                                    );
                                }
                            }
                            // an item whose name stands in its scope but was claimed by an
                            // enclosing level is subject to the recorded finding (R8 above
                            // reports it under its own key); the other rules would only
                            // measure the same thing again
                            if info.shadowed.contains(&it.id) {
                                continue;
                            }
                            // ---- R3 inside an adjacent group: when the group's other
                            // members form exactly one contiguous block on the line, the
                            // variable must stand in for this member exactly like the value
                            // typed at the block's edge
                            if let (Some((gid, member_ix)), true) = (
                                it.group,
                                named_item
                                    && !has_catch
                                    && !usage_level_empty
                                    && !tainted
                                    && !it.shared_env
                                    && !shares_name_with_ancestor(&l.ix, it),
                            ) {
                                let member_ids: Vec<usize> = l
                                    .ix
                                    .items
                                    .iter()
                                    .filter(|m| m.group.map(|g| g.0) == Some(gid))
                                    .map(|m| m.id)
                                    .collect();
                                let mut spans: Vec<(usize, usize)> = info
                                    .spans
                                    .iter()
                                    .filter(|sp| member_ids.contains(&sp.0))
                                    .map(|sp| (sp.1, sp.2))
                                    .collect();
                                spans.sort_unstable();
                                let contiguous = !spans.is_empty()
                                    && spans.windows(2).all(|w| w[0].1 == w[1].0);
                                let once = member_ids
                                    .iter()
                                    .all(|m| info.occurrences.get(m).copied().unwrap_or(0) <= 1);
                                if contiguous && once {
                                    let mut toks: Vec<Tok> = Vec::new();
                                    let mut t: Vec<u8> = match it.named.longs.first() {
                                        Some(lg) => format!("--{}", lg).into_bytes(),
                                        None => format!("-{}", it.named.shorts[0]).into_bytes(),
                                    };
                                    if !it.is_flag {
                                        t.push(b'=');
                                        t.extend_from_slice(v);
                                    }
                                    toks.push(t);
                                    let at = if member_ix == 0 {
                                        spans[0].0
                                    } else {
                                        spans[spans.len() - 1].1
                                    };
                                    let mut argv2 = argv.clone();
                                    for (k, t) in toks.into_iter().enumerate() {
                                        argv2.insert(at + k, t);
                                    }
                                    let op2 = match op {
                                        Op::Run { p, name, comp, .. } => Op::Run {
                                            p: *p,
                                            argv: argv2,
                                            name: name.clone(),
                                            comp: *comp,
                                            cb: None,
                                        },
                                        _ => unreachable!(),
                                    };
                                    let typed = with_env_removed(&it.named.envs, || run_on(l, &op2));
                                    stats.bump("rule.R3adj.evaluated");
                                    relational += 1;
                                    if member_ix == 0 {
                                        stats.bump("probe.R3adj_first_member_from_variable");
                                    }
                                    // inside an adjacent group which failure is reported
                                    // depends on how much each attempt consumed; two failures
                                    // are equivalent whatever their text
                                    let same = match (&first.outcome, &typed.outcome) {
                                        (Outcome::Stderr(_), Outcome::Stderr(_)) => true,
                                        _ => equivalent(&first, &typed),
                                    };
                                    if !same {
                                        // what the block looks like to bpaf's adjacency
                                        // search: kind of this member, kind of the member that
                                        // opens the block on the line, items from there to the
                                        // end of the line
                                        let opener = l
                                            .ix
                                            .items
                                            .iter()
                                            .find(|m| {
                                                info.spans
                                                    .iter()
                                                    .any(|sp| sp.0 == m.id && sp.1 == spans[0].0)
                                            })
                                            .map_or("?", |m| if m.is_flag { "flag" } else { "argument" });
                                        violation!(
                                            "R3",
                                            opi,
                                            if member_ix == 0 {
                                                format!(
                                                    "rule=R3 adjacent-group member=first self={} opener={}",
                                                    if it.is_flag { "flag" } else { "argument" },
                                                    opener
                                                )
                                            } else {
                                                format!(
                                                    "rule=R3 adjacent-group member=later classes={}/{}",
                                                    first.outcome.class(),
                                                    typed.outcome.class()
                                                )
                                            },
                                            format!(
                                                "item {:?} is member {} of an adjacent group whose other members form one block on the line; it is absent and its variable holds {:?}\nfrom variable : {}\ntyped at the block's edge: {}",
                                                it.named,
                                                member_ix,
                                                String::from_utf8_lossy(v),
                                                describe(&first),
                                                describe(&typed)
                                            )
                                        );
                                    }
                                }
                            }
                            if it.ctx == Ctx::Simple
                                && named_item
                                && !has_catch
                                && !usage_level_empty
                                && !tainted
                                && !it.shared_env
                                && !shares_name_with_ancestor(&l.ix, it)
                            {
                                let mut tok: Vec<u8> = match it.named.longs.first() {
                                    Some(lg) => format!("--{}", lg).into_bytes(),
                                    None => format!("-{}", it.named.shorts[0]).into_bytes(),
                                };
                                if !it.is_flag {
                                    tok.push(b'=');
                                    tok.extend_from_slice(v);
                                }
                                let at = info.level_start[&it.level];
                                let mut argv2 = argv.clone();
                                argv2.insert(at, tok);
                                let op2 = match op {
                                    Op::Run { p, name, comp, .. } => Op::Run {
                                        p: *p,
                                        argv: argv2,
                                        name: name.clone(),
                                        comp: *comp,
                                        cb: None,
                                    },
                                    _ => unreachable!(),
                                };
                                let typed = with_env_removed(&it.named.envs, || run_on(l, &op2));
                                stats.bump("rule.R3.evaluated");
                                relational += 1;
                                if it.level > 0 {
                                    stats.bump("probe.R3_inside_subcommand");
                                }
                                if it.named.envs.first().map(|e| e.as_bytes())
                                    != set.as_ref().map(|s| s.0.as_bytes())
                                {
                                    stats.bump("probe.alias_decided_the_value");
                                }
                                if matches!(it.ty, Ty::Os | Ty::Path) && std::str::from_utf8(v).is_err() {
                                    stats.bump("probe.non_utf8_reached_osstring");
                                }
                                stats.state(&["R3", &wrappers, first.outcome.class(), typed.outcome.class()]);
                                if !equivalent(&first, &typed) {
                                    violation!(
                                        "R3",
                                        opi,
                                        format!(
                                            "rule=R3 kind={} classes={}/{}",
                                            if it.is_flag { "flag" } else { "argument" },
                                            first.outcome.class(),
                                            typed.outcome.class()
                                        ),
                                        format!(
                                            "item {:?} absent from the line, variable holds {:?}\nfrom variable: {}\ntyped value  : {}",
                                            it.named,
                                            String::from_utf8_lossy(v),
                                            describe(&first),
                                            describe(&typed)
                                        )
                                    );
                                }
                            }
                            // ---- R13: a variable declared by two items is read for each of them:
                            // giving this item a variable of its own with the same value
                            // changes nothing
                            if it.shared_env {
                                let shared: Vec<S> = it
                                    .named
                                    .envs
                                    .iter()
                                    .copied()
                                    .filter(|e| {
                                        l.ix.iter().any(|o| o.id != it.id && o.named.envs.contains(e))
                                    })
                                    .collect();
                                let own = map_leaf(&l.opts, it.id, &|n: &Named| {
                                    let mut n = n.clone();
                                    for e in n.envs.iter_mut() {
                                        if shared.contains(e) {
                                            *e = crate::shape::intern(&format!("{}__OWN", e));
                                        }
                                    }
                                    n
                                });
                                let twin = Live {
                                    parser: exec::build_unchecked(&own),
                                    ix: index(&own),
                                    opts: own,
                                };
                                let saved = world::with(|s| {
                                    let saved = s.env.clone();
                                    for e in &shared {
                                        if let Some(v) = s.env.get(e.as_bytes()).cloned() {
                                            s.env.insert(format!("{}__OWN", e).into_bytes(), v);
                                        }
                                    }
                                    saved
                                });
                                let other = run_on(&twin, op);
                                world::with(|s| s.env = saved);
                                stats.bump("rule.R13.evaluated");
                                if !same_modulo_help(&other, &first) {
                                    violation!(
                                        "R13",
                                        opi,
                                        format!(
                                            "rule=R13 classes={}/{}",
                                            first.outcome.class(),
                                            other.outcome.class()
                                        ),
                                        format!(
                                            "item {:?} shares a variable with another item; with a variable of its own holding the same value the outcome differs\nshared: {}\nown   : {}",
                                            it.named,
                                            describe(&first),
                                            describe(&other)
                                        )
                                    );
                                }
                            }
                            // ---- R10: usage instead of an error, never instead of a value: if
                            // the level would produce a value without fallback_to_usage (its
                            // items being satisfied by their variables) it produces it with
                            if usage_level_empty {
                                let plain = without_usage_fallback(&l.opts, it.level);
                                let twin = Live {
                                    parser: exec::build_unchecked(&plain),
                                    ix: index(&plain),
                                    opts: plain,
                                };
                                let other = run_on(&twin, op);
                                stats.bump("rule.R10.evaluated");
                                if let Outcome::Value(_) = other.outcome {
                                    stats.bump("probe.R10_value_from_variables_on_empty_line");
                                    if other.outcome != first.outcome {
                                        violation!(
                                            "R10",
                                            opi,
                                            format!("rule=R10 got={}", first.outcome.class()),
                                            format!(
                                                "the level of item {:?} sees an empty line and its items are satisfied by their variables; fallback_to_usage must not replace the value\nwith fallback_to_usage   : {}\nwithout fallback_to_usage: {}",
                                                it.named,
                                                describe(&first),
                                                describe(&other)
                                            )
                                        );
                                    }
                                }
                            }
                            // ---- R11: under `catch` a value that does not convert counts as
                            // absent, wherever it came from: an invalid variable behaves like
                            // an unset one
                            if it.ctx == Ctx::Simple && !it.shared_env && invalid_inside_catch(it, v) {
                                let without = with_env_removed(&it.named.envs, || run_on(l, op));
                                stats.bump("rule.R11.evaluated");
                                if !same_modulo_help(&without, &first) {
                                    violation!(
                                        "R11",
                                        opi,
                                        format!(
                                            "rule=R11 classes={}/{}",
                                            first.outcome.class(),
                                            without.outcome.class()
                                        ),
                                        format!(
                                            "item {:?} absent from the line, under catch, its variable holds the invalid value {:?}\nvariable invalid: {}\nvariable unset  : {}",
                                            it.named,
                                            String::from_utf8_lossy(v),
                                            describe(&first),
                                            describe(&without)
                                        )
                                    );
                                }
                            }
                            // ---- R5 in a choice: when every alternative is a single required
                            // item, none of them is typed and no other one has its variable
                            // set, this item's invalid variable value is the only thing there
                            // is - it must fail the run, not count as "absent"
                            if let Some((alt_id, true)) = it.alt {
                                let siblings_idle = l
                                    .ix
                                    .iter()
                                    .filter(|o| o.id != it.id && o.alt.map(|a| a.0) == Some(alt_id))
                                    .all(|o| {
                                        info.occurrences.get(&o.id).copied().unwrap_or(0) == 0
                                            && first_set(&o.named).is_none()
                                    });
                                if siblings_idle
                                    && !has_catch
                                    && !usage_level_empty
                                    && value_is_invalid(it, v) == Some(true)
                                {
                                    stats.bump("rule.R5alt.evaluated");
                                    if !matches!(first.outcome, Outcome::Stderr(_)) {
                                        violation!(
                                            "R5",
                                            opi,
                                            format!("rule=R5 in-choice got={}", first.outcome.class()),
                                            format!(
                                                "item {:?} is an alternative, nothing is typed for the choice, its variable holds the invalid value {:?}, yet the run did not fail: {}",
                                                it.named,
                                                String::from_utf8_lossy(v),
                                                describe(&first)
                                            )
                                        );
                                    }
                                }
                            }
                            // ---- R5: an invalid value that is used is never masked
                            if it.ctx == Ctx::Simple
                                && !has_catch
                                && !usage_level_empty
                                && value_is_invalid(it, v) == Some(true)
                            {
                                stats.bump("rule.R5.evaluated");
                                if it.stack.iter().any(|w| matches!(w, W::Fallback { .. } | W::FallbackWith { .. })) {
                                    stats.bump("probe.invalid_value_under_fallback");
                                }
                                // ... and the failure does not put the blame on a word the
                                // user typed: if the line is fine without the variable, a
                                // conversion message that quotes something other than the
                                // variable's value accuses an innocent word
                                if let Outcome::Stderr(m) = &first.outcome {
                                    let quoted = m
                                        .strip_prefix("couldn't parse `")
                                        .or_else(|| m.strip_prefix('`'))
                                        .and_then(|rest| rest.find("`").map(|ix| rest[..ix].to_string()));
                                    if let Some(w) = quoted {
                                        let lossy = String::from_utf8_lossy(v).to_string();
                                        let typed_word = argv
                                            .iter()
                                            .any(|t| String::from_utf8_lossy(t) == w.as_str());
                                        if w != lossy && typed_word && !it.shared_env {
                                            let without = with_env_removed(&it.named.envs, || run_on(l, op));
                                            let line_is_fine = match &without.outcome {
                                                Outcome::Stderr(m2) => conversion_text(m2).is_none(),
                                                _ => true,
                                            };
                                            stats.bump("rule.R5blame.evaluated");
                                            if line_is_fine {
                                                violation!(
                                                    "R5",
                                                    opi,
                                                    "rule=R5 blames-typed-word".to_string(),
                                                    format!(
                                                        "item {:?} absent from the line, its variable holds the invalid value {:?}; the failure quotes the typed word {:?} as the offender: {}",
                                                        it.named, lossy, w, m
                                                    )
                                                );
                                            }
                                        }
                                    }
                                }
                                if !matches!(first.outcome, Outcome::Stderr(_)) {
                                    violation!(
                                        "R5",
                                        opi,
                                        format!("rule=R5 got={}", first.outcome.class()),
                                        format!(
                                            "item {:?} absent from the line, its variable holds the invalid value {:?}, yet the run did not fail: {}",
                                            it.named,
                                            String::from_utf8_lossy(v),
                                            describe(&first)
                                        )
                                    );
                                }
                            }
                        }
                        None => {
                            // ---- R4: both absent => as if the item had no variable at all
                            if named_item {
                                let id = it.id;
                                let stripped = map_leaf(&l.opts, id, &|n: &Named| {
                                    let mut n = n.clone();
                                    n.envs.clear();
                                    n
                                });
                                let twin = Live {
                                    parser: exec::build_unchecked(&stripped),
                                    ix: index(&stripped),
                                    opts: stripped,
                                };
                                let plain = run_on(&twin, op);
                                stats.bump("rule.R4.evaluated");
                                // usage/help text legitimately differs (it shows `[env:..]`)
                                let both_stdout = matches!(
                                    (&plain.outcome, &first.outcome),
                                    (Outcome::Stdout(_), Outcome::Stdout(_))
                                );
                                if !both_stdout && !plain.same_result(&first) {
                                    violation!(
                                        "R4",
                                        opi,
                                        format!(
                                        "rule=R4 classes={}/{}",
                                        first.outcome.class(),
                                        plain.outcome.class()
                                    ),
                                        format!(
                                            "item {:?} absent from the line and its variables unset\nwith env(..) declared  : {}\nwithout the declaration: {}",
                                            it.named,
                                            describe(&first),
                                            describe(&plain)
                                        )
                                    );
                                }
                            } else if it.ctx == Ctx::Simple && !has_catch {
                                // env-only item, nothing set: if the run fails because of it the
                                // message names the variable
                                stats.bump("rule.R4.env_only.evaluated");
                                let required = !it.is_flag
                                    && it.stack.iter().all(|w| {
                                        matches!(
                                            w,
                                            W::Guard { .. }
                                                | W::Parse { .. }
                                                | W::Map { .. }
                                                | W::Hide
                                                | W::Boxed
                                                | W::GroupHelp(_)
                                        )
                                    });
                                let only_item = l.ix.items.len() == 1 && !l.ix.levels[0].has_positional;
                                if required && only_item && !usage_level_empty {
                                    let ok = match &first.outcome {
                                        Outcome::Stderr(m) => m.contains(it.named.envs[0]),
                                        _ => false,
                                    };
                                    if !ok {
                                        violation!(
                                            "R4",
                                            opi,
                                            "rule=R4 env-only".to_string(),
                                            format!(
                                                "required env-only item {:?} with nothing set: expected a failure naming the variable, got {}",
                                                it.named,
                                                describe(&first)
                                            )
                                        );
                                    }
                                }
                            }
                        }
                    }
                }
            }
            _ => {}
        }
    }
    report.hash = h.finish();
    if set_reads > 0 && relational > 0 {
        report.nontrivial = Some(case.content_hash());
    }
    report
}
