//! C11 - outcome classes map to streams and exit status.
//!
//! The seam is the process boundary. Tier A launches simulated processes (the real
//! `OptionParser::run()` against a simulated argv, two simulated streams with write faults and
//! an intercepted exit); tier B spawns the unhooked executable as a real child process for a
//! sample of the same launches. The prediction comes from `run_inner` on a twin parser mapped
//! through a table written from the property text (DESIGN.md section 7, C11).
use crate::exec::{self, Case, Obs, Op, Outcome, ProcObs, Tok, BODY_STATUS};
use crate::gen::{self, Gen, Swarm};
use crate::rng::{mix, Rng};
use crate::shape::Opts;
use crate::stats::{Fnv, RunReport, Stats, Violation};
use crate::world::StreamFault;
use std::ffi::OsString;
use std::io::Write;
use std::os::unix::ffi::OsStringExt;
use std::os::unix::process::CommandExt;
use std::process::{Command, Stdio};

pub fn realproc(dull: bool) -> String {
    format!(
        "{}/target/realproc{}/release/bpaf_realproc",
        crate::root(),
        if dull { "-dull" } else { "" }
    )
}
fn marker_dir() -> String {
    format!("{}/target/markers", crate::root())
}

extern "C" {
    fn close(fd: i32) -> i32;
    fn posix_openpt(flags: i32) -> i32;
    fn grantpt(fd: i32) -> i32;
    fn unlockpt(fd: i32) -> i32;
    fn ptsname_r(fd: i32, buf: *mut u8, len: usize) -> i32;
}

/// a pseudo terminal: (master, slave)
fn open_pty() -> Result<(std::fs::File, std::fs::File), String> {
    use std::os::unix::io::FromRawFd;
    unsafe {
        let m = posix_openpt(0o2 | 0o400);
        if m < 0 {
            return Err("posix_openpt failed".into());
        }
        if grantpt(m) != 0 || unlockpt(m) != 0 {
            close(m);
            return Err("grantpt/unlockpt failed".into());
        }
        let mut buf = [0u8; 128];
        if ptsname_r(m, buf.as_mut_ptr(), buf.len()) != 0 {
            close(m);
            return Err("ptsname_r failed".into());
        }
        let end = buf.iter().position(|b| *b == 0).unwrap_or(buf.len());
        let path = String::from_utf8_lossy(&buf[..end]).to_string();
        let master = std::fs::File::from_raw_fd(m);
        let slave = std::fs::OpenOptions::new()
            .read(true)
            .write(true)
            .open(&path)
            .map_err(|e| format!("open {}: {}", path, e))?;
        Ok((master, slave))
    }
}

pub fn argv0_forms() -> Vec<Tok> {
    vec![
        b"app".to_vec(),
        b"/usr/bin/app".to_vec(),
        b"./app".to_vec(),
        b"my app".to_vec(),
        "é".as_bytes().to_vec(),
        "/a/b/é app".as_bytes().to_vec(),
        vec![b'd', 0xff, b'/', b'a', b'p', b'p'],
        vec![b'a', b'p', b'p', 0xff],
        vec![b'/', b'x', b'/', 0xfe, 0xff],
        b"".to_vec(),
        b"-x".to_vec(),
        b"--help".to_vec(),
        b"a=b".to_vec(),
        b"../rel/prog.exe".to_vec(),
        b"cargo-app".to_vec(),
        b"/usr/libexec/cargo-cmd".to_vec(),
        b"cmd".to_vec(),
    ]
}

/// the program name a user would expect from `argv[0]`: its file name, when that is text
pub fn name_of(argv: &[Tok]) -> Option<String> {
    let a0 = argv.first()?;
    let base = match a0.iter().rposition(|b| *b == b'/') {
        Some(ix) => &a0[ix + 1..],
        None => &a0[..],
    };
    if base.is_empty() {
        return None;
    }
    std::str::from_utf8(base).ok().map(|s| s.to_string())
}

pub fn gen_case(seed: u64, run: u64, faults: bool, real_every: u64) -> Case {
    let mut r = Rng::new(mix(seed, run));
    let mut sw = Swarm::draw(&mut r);
    sw.callbacks = sw.callbacks && r.chance(1, 2);
    // one definition in four sets `max_width` (the prediction for those is rendered by
    // `print_message(width)` in a fault-free world, see run_case)
    sw.widths = r.chance(1, 4);
    sw.bells = r.chance(1, 3);
    let opts = crate::c04::valid_opts(&mut r, &sw);
    let _ = Gen::new(&mut r, sw.clone());
    let n = r.range(1, 4);
    let mut ops = Vec::new();
    let forms = argv0_forms();
    for k in 0..n {
        let mut argv: Vec<Tok> = Vec::new();
        let a0 = if r.chance(1, 2) {
            b"app".to_vec()
        } else {
            r.pick(&forms).clone()
        };
        let mut no_argv0 = false;
        match r.below(20) {
            0..=7 => argv = gen::argv(&mut r, &opts).1,
            8..=10 => {
                // ask for help or version somewhere
                argv = gen::base_sentence(&mut r, &opts, false);
                // the help and version names of every level, nested commands included
                let mut h: Vec<Tok> = Vec::new();
                opts.walk_opts(&mut |o| h.extend(gen::help_tokens(o)));
                h.sort();
                h.dedup();
                let at = r.below(argv.len() + 1);
                argv.insert(at, r.pick(&h).clone());
                if r.chance(1, 4) {
                    let at = r.below(argv.len() + 1);
                    argv.insert(at, r.pick(&h).clone());
                }
            }
            11..=14 => {
                // the way the shell stubs ask for completion
                argv = gen::comp_argv(&mut r, &opts);
                let rev = *r.pick(&[0usize, 1, 7, 8, 9][..]);
                let at = if r.chance(3, 4) { 0 } else { r.below(argv.len() + 1) };
                argv.insert(at, format!("--bpaf-complete-rev={}", rev).into_bytes());
            }
            15..=16 => {
                // ask for a completion script
                argv = if r.chance(1, 2) {
                    vec![]
                } else {
                    gen::base_sentence(&mut r, &opts, false)
                };
                let style = *r.pick(
                    &[
                        "bash", "zsh", "fish", "elvish", "bash", "zsh", "fish", "elvish", "powershell",
                        "tcsh", "", "zsh5", "Bash",
                    ][..],
                );
                let at = if r.chance(3, 4) { 0 } else { r.below(argv.len() + 1) };
                argv.insert(at, format!("--bpaf-complete-style-{}", style).into_bytes());
            }
            17 if r.chance(2, 3) => {
                // a plain request: a path of command names, then a help or version name
                let mut level = &opts;
                loop {
                    let mut cmds = Vec::new();
                    level_commands(&level.root, &mut cmds);
                    if cmds.is_empty() || r.chance(1, 3) {
                        break;
                    }
                    if let crate::shape::Shape::Cmd {
                        name,
                        shorts,
                        longs,
                        opts,
                        ..
                    } = *r.pick(&cmds)
                    {
                        let mut names: Vec<Tok> = vec![name.as_bytes().to_vec()];
                        if r.chance(1, 4) {
                            names.extend(longs.iter().map(|l| l.as_bytes().to_vec()));
                            names.extend(shorts.iter().map(|c| c.to_string().into_bytes()));
                        }
                        argv.push(r.pick(&names).clone());
                        level = &**opts;
                    }
                }
                let h = gen::help_tokens(level);
                argv.push(r.pick(&h).clone());
            }
            17 => {}
            18 if r.chance(1, 2) => {
                // words after `--` that look like requests: they are positional words
                argv = if r.chance(1, 2) {
                    vec![]
                } else {
                    gen::base_sentence(&mut r, &opts, false)
                };
                argv.retain(|t| t != b"--");
                argv.push(b"--".to_vec());
                let h = gen::help_tokens(&opts);
                for _ in 0..r.range(1, 3) {
                    let w = match r.below(4) {
                        0 => r.pick(&h).clone(),
                        1 => format!("--bpaf-complete-rev={}", r.pick(&[0usize, 7, 8, 9][..])).into_bytes(),
                        2 => format!("--bpaf-complete-style-{}", r.pick(&["bash", "zsh", "fish", "elvish"][..]))
                            .into_bytes(),
                        _ => b"w".to_vec(),
                    };
                    argv.push(w);
                }
            }
            18 => no_argv0 = r.chance(1, 2),
            _ => argv = gen::base_sentence(&mut r, &opts, true),
        }
        argv.truncate(12);
        if r.chance(1, 10) {
            // a bundle of short flags, often with a help or version short in it
            let letters = bundle_letters(&opts);
            if letters.len() >= 2 {
                let mut word = vec![b'-'];
                let n = r.range(2, letters.len().min(3));
                let mut pool = letters.clone();
                if r.chance(1, 2) {
                    for c in ['h', 'V'] {
                        if let Some(ix) = pool.iter().position(|x| *x == c) {
                            pool.swap(0, ix);
                        }
                    }
                } else {
                    let k = r.below(pool.len());
                    pool.swap(0, k);
                }
                for c in pool.into_iter().take(n) {
                    word.push(c as u8);
                }
                if r.chance(1, 2) {
                    word[1..].reverse();
                }
                let limit = argv.iter().position(|t| t == b"--").unwrap_or(argv.len());
                let at = r.below(limit + 1);
                argv.insert(at, word);
            }
        }
        if !argv.is_empty() && r.chance(1, 25) {
            // one very long word: quoted back in a failure message of several KiB
            let at = r.below(argv.len());
            let n = *r.pick(&[1990usize, 2100, 5000, 70000][..]);
            let fill = *r.pick(&[b'x', b'9', b'-'][..]);
            // (not a short-flag cluster of that length: bpaf's work on those grows faster than
            // linearly and is bounded separately, under C04)
            if argv[at].first() == Some(&b'-') && argv[at].get(1) != Some(&b'-') {
                argv[at] = b"--".to_vec();
            }
            let grown = argv[at].len() + n;
            argv[at].resize(grown, fill);
        }
        if r.chance(1, 12) {
            // an argument that repeats the program's own name (multicall binaries, `cargo-x x`)
            let base: Vec<u8> = match a0.iter().rposition(|b| *b == b'/') {
                Some(ix) => a0[ix + 1..].to_vec(),
                None => a0.clone(),
            };
            let word = if r.chance(1, 4) {
                a0.clone()
            } else {
                base
            };
            let at = if r.chance(2, 3) { 0 } else { r.below(argv.len() + 1) };
            argv.insert(at, word);
        }
        let mut full = Vec::new();
        if !no_argv0 {
            full.push(a0);
            full.extend(argv);
        }
        let fault = |r: &mut Rng| -> StreamFault {
            match r.below(8) {
                0 | 1 => StreamFault::ErrAt {
                    at: 0,
                    errno: "No space left on device (os error 28)",
                },
                2 => StreamFault::ErrAt {
                    at: 0,
                    errno: "Broken pipe (os error 32)",
                },
                3 => StreamFault::ErrAt {
                    at: r.range(1, 300),
                    errno: "No space left on device (os error 28)",
                },
                4 => StreamFault::Closed,
                _ => StreamFault::None,
            }
        };
        let (out_fault, err_fault) = if faults {
            (fault(&mut r), fault(&mut r))
        } else {
            (StreamFault::None, StreamFault::None)
        };
        // a terminal on exactly one of the two streams (with both on a terminal a colour build
        // colours its output by design)
        let (out_fault, err_fault) = if out_fault == StreamFault::None
            && err_fault == StreamFault::None
            && r.chance(1, 12)
        {
            if r.chance(1, 2) {
                (StreamFault::Tty, StreamFault::None)
            } else {
                (StreamFault::None, StreamFault::Tty)
            }
        } else {
            (out_fault, err_fault)
        };
        let representable = |f: &StreamFault| !matches!(f, StreamFault::ErrAt { at, .. } if *at > 0);
        let has_tty = out_fault == StreamFault::Tty || err_fault == StreamFault::Tty;
        let real = real_every > 0
            && ((run + k as u64) % real_every == 0 || (has_tty && (run + k as u64) % 4 == 0))
            && !full.is_empty()
            && representable(&out_fault)
            && representable(&err_fault);
        ops.push(Op::Launch {
            p: 0,
            argv: full,
            out_fault,
            err_fault,
            real,
        });
    }
    // the process environment: things a terminal session exports (none of them declared by the
    // definition, so none of them may matter) plus the definition's own variables
    let mut env: Vec<(Tok, Tok)> = Vec::new();
    if r.chance(1, 2) {
        for (name, vals) in [
            ("COLUMNS", &["20", "40", "60", "80", "200", "abc", ""][..]),
            ("LINES", &["5", "50"][..]),
            ("NO_COLOR", &["1", ""][..]),
            ("LANG", &["C", "en_US.UTF-8"][..]),
            ("LC_ALL", &["C.UTF-8"][..]),
            ("HOME", &["/root", "/nonexistent"][..]),
            ("USER", &["x"][..]),
            ("COMP_LINE", &["app --a"][..]),
            ("PATH", &["/bin"][..]),
        ] {
            if r.chance(1, 3) {
                env.push((name.as_bytes().to_vec(), r.pick(vals).as_bytes().to_vec()));
            }
        }
        for name in opts.declared_envs() {
            let st = gen::env_state(&mut r);
            if let Some(v) = gen::env_value(&mut r, st) {
                env.retain(|(k, _)| k != name.as_bytes());
                env.push((name.as_bytes().to_vec(), v));
            }
        }
    }
    Case {
        prop: "C11".into(),
        seed,
        run,
        parsers: vec![opts],
        env,
        ops,
        interlude: Vec::new(),
    }
}

/// what the property promises for a launch, derived from `run_inner` on a twin
#[derive(Clone, Debug, PartialEq)]
pub struct Expected {
    pub stdout: Vec<u8>,
    pub stderr: Vec<u8>,
    pub status: i32,
    pub body: Option<String>,
    pub class: &'static str,
}

pub enum Prediction {
    Expected(Expected),
    /// run_inner itself did something C04 forbids; nothing to compare
    Abnormal(String),
    /// property clause violated by the prediction itself
    Bad(String, String),
}

pub fn predict(pred: &Obs) -> Prediction {
    match &pred.outcome {
        Outcome::Value(v) => Prediction::Expected(Expected {
            stdout: pred.out.clone(),
            stderr: pred.err.clone(),
            status: BODY_STATUS,
            body: Some(format!("{:?}", v)),
            class: "value",
        }),
        Outcome::Stdout(s) => {
            let mut out = pred.out.clone();
            out.extend_from_slice(s.as_bytes());
            out.push(b'\n');
            Prediction::Expected(Expected {
                stdout: out,
                stderr: pred.err.clone(),
                status: 0,
                body: None,
                class: "stdout",
            })
        }
        Outcome::Completion(s) => {
            let mut out = pred.out.clone();
            out.extend_from_slice(s.as_bytes());
            Prediction::Expected(Expected {
                stdout: out,
                stderr: pred.err.clone(),
                status: 0,
                body: None,
                class: "completion",
            })
        }
        Outcome::Stderr(s) => {
            if s.trim().is_empty() {
                return Prediction::Bad(
                    "rule=P3 empty-failure-message".to_string(),
                    "a parse failure with an empty message".to_string(),
                );
            }
            let mut err = pred.err.clone();
            err.extend_from_slice(b"Error: ");
            err.extend_from_slice(s.as_bytes());
            err.push(b'\n');
            Prediction::Expected(Expected {
                stdout: pred.out.clone(),
                stderr: err,
                status: 1,
                body: None,
                class: "stderr",
            })
        }
        Outcome::Exit(code) => {
            // the completion-script request: printed inside run_inner, then exit
            if *code != 0 || pred.out.is_empty() || !pred.err.is_empty() {
                return Prediction::Bad(
                    "rule=P3 script-dump".to_string(),
                    format!(
                        "completion script request: status {}, {} bytes on stdout, {} bytes on stderr",
                        code,
                        pred.out.len(),
                        pred.err.len()
                    ),
                );
            }
            Prediction::Expected(Expected {
                stdout: pred.out.clone(),
                stderr: Vec::new(),
                status: 0,
                body: None,
                class: "script",
            })
        }
        other => Prediction::Abnormal(format!("{:?}", other)),
    }
}

/// Is there anything on the command line that can make bpaf answer on stdout? Deliberately
/// generous (a necessary condition only): some token spells, or as a cluster contains, a help or
/// version name of some level of the definition, or a level with fallback_to_usage sees an
/// empty line (top level: nothing but `--`/completion switches; a command: its name is there).
pub fn stdout_has_cause(opts: &Opts, rest: &[Tok]) -> bool {
    let mut longs: Vec<String> = Vec::new();
    let mut shorts: Vec<char> = Vec::new();
    let mut usage_top = false;
    let mut usage_cmd_names: Vec<String> = Vec::new();
    fn cmd_names(s: &crate::shape::Shape, out: &mut Vec<(Vec<String>, bool)>) {
        s.walk(&mut |n| {
            if let crate::shape::Shape::Cmd {
                name,
                shorts,
                longs,
                opts,
                ..
            } = n
            {
                let mut names = vec![name.to_string()];
                names.extend(longs.iter().map(|l| l.to_string()));
                names.extend(shorts.iter().map(|c| c.to_string()));
                out.push((names, opts.fallback_to_usage));
            }
        });
    }
    let mut first = true;
    opts.walk_opts(&mut |o| {
        match &o.help_names {
            None => {
                longs.push("help".into());
                shorts.push('h');
            }
            Some(n) => {
                longs.extend(n.longs.iter().map(|l| l.to_string()));
                shorts.extend(n.shorts.iter().copied());
            }
        }
        if o.version.is_some() {
            match &o.version_names {
                None => {
                    longs.push("version".into());
                    shorts.push('V');
                }
                Some(n) => {
                    longs.extend(n.longs.iter().map(|l| l.to_string()));
                    shorts.extend(n.shorts.iter().copied());
                }
            }
        }
        if first {
            usage_top = o.fallback_to_usage;
            first = false;
        }
    });
    let mut cmds = Vec::new();
    cmd_names(&opts.root, &mut cmds);
    for (names, usage) in cmds {
        if usage {
            usage_cmd_names.extend(names);
        }
    }
    // a bare `--` ends option processing for every level: what follows are positional words that
    // can neither ask for help nor name a command
    let dd = rest.iter().position(|t| t == b"--");
    let before = &rest[..dd.unwrap_or(rest.len())];
    let after_dd = dd.map_or(0, |ix| rest.len() - ix - 1);
    for t in before {
        let text = String::from_utf8_lossy(t);
        if let Some(l) = text.strip_prefix("--") {
            let name = l.split('=').next().unwrap_or("");
            if longs.iter().any(|x| x == name) {
                return true;
            }
        } else if let Some(cluster) = text.strip_prefix('-') {
            let head = cluster.split('=').next().unwrap_or("");
            if head.chars().any(|c| shorts.contains(&c)) {
                return true;
            }
        }
        if usage_cmd_names.iter().any(|n| *n == text) {
            return true;
        }
    }
    if usage_top && after_dd == 0 && before.iter().all(|t| t.starts_with(b"--bpaf-complete-")) {
        return true;
    }
    false
}

/// commands that are fields of this level (not of a nested one)
fn level_commands<'a>(s: &'a crate::shape::Shape, out: &mut Vec<&'a crate::shape::Shape>) {
    use crate::shape::Shape;
    match s {
        Shape::Cmd { .. } => out.push(s),
        Shape::Wrap(_, i) => level_commands(i, out),
        Shape::Seq(xs, _) | Shape::Alt(xs) => {
            for x in xs {
                level_commands(x, out)
            }
        }
        _ => {}
    }
}

/// A line that is nothing but a path of command names followed by one word that every level on
/// that path knows as a help or version name, in a definition where no other item can take such
/// a word (no `any`/`literal`, no item spelled like it): whichever level ends up seeing the word,
/// the documented answer is help or version on stdout.
pub fn plain_request(opts: &Opts, rest: &[Tok]) -> bool {
    use crate::shape::Shape;
    let (last, path) = match rest.split_last() {
        Some(x) => x,
        None => return false,
    };
    let mut clean = true;
    opts.walk_opts(&mut |o| clean &= o.cargo.is_none());
    opts.root.walk(&mut |s| match s {
        Shape::Any { .. } | Shape::Literal { .. } | Shape::Battery(_) => clean = false,
        other => {
            if let Some(n) = other.named() {
                if gen::all_spellings(n).iter().any(|t| t == last) {
                    clean = false;
                }
            }
        }
    });
    if !clean {
        return false;
    }
    // a level is passed through only if it consists of commands and nothing else: with other
    // fields in front of the command `construct!` reports *their* failure (a missing required
    // item) rather than the help the command produced - that is how bpaf orders its answers
    fn only_commands(s: &crate::shape::Shape) -> bool {
        use crate::shape::Shape;
        match s {
            Shape::Cmd { .. } => true,
            Shape::Wrap(_, i) => only_commands(i),
            Shape::Alt(xs) => xs.iter().all(only_commands),
            Shape::Seq(xs, _) => xs.len() == 1 && only_commands(&xs[0]),
            _ => false,
        }
    }
    let mut level = opts;
    if !gen::help_tokens(level).contains(last) {
        return false;
    }
    for word in path {
        if !only_commands(&level.root) {
            return false;
        }
        let mut cmds = Vec::new();
        level_commands(&level.root, &mut cmds);
        // (a word that names more than one command of the level is settled by bpaf's rules for
        // alternatives, which are not C11's business)
        let mut hits = cmds.into_iter().filter_map(|c| match c {
            Shape::Cmd {
                name,
                shorts,
                longs,
                opts,
                ..
            } => {
                let hit = name.as_bytes() == &word[..]
                    || longs.iter().any(|l| l.as_bytes() == &word[..])
                    || shorts.iter().any(|c| c.to_string().as_bytes() == &word[..]);
                if hit {
                    Some(&**opts)
                } else {
                    None
                }
            }
            _ => None,
        });
        level = match (hits.next(), hits.next()) {
            (Some(l), None) => l,
            _ => return false,
        };
        if !gen::help_tokens(level).contains(last) {
            return false;
        }
    }
    true
}

/// Letters that bpaf documents as bundleable (`-ab` is `-a -b`) in this definition: short names
/// of visible flags and the top level's help/version shorts, minus every letter that is also an
/// argument's short name, a hidden flag's, or a help/version short of a nested level only.
/// Empty when the definition has items that look at the raw word (`any`, `literal`).
pub fn bundle_letters(opts: &Opts) -> Vec<char> {
    use crate::shape::{Shape, W};
    let mut raw = false;
    let mut flags: Vec<char> = Vec::new();
    let mut banned: Vec<char> = Vec::new();
    fn go(s: &Shape, hidden: bool, flags: &mut Vec<char>, banned: &mut Vec<char>, raw: &mut bool) {
        match s {
            Shape::Switch(n) | Shape::Flag(n, _, _) | Shape::ReqFlag(n, _) => {
                if hidden {
                    banned.extend(n.shorts.iter().copied());
                } else {
                    flags.extend(n.shorts.iter().copied());
                }
            }
            Shape::Arg { named, .. } => banned.extend(named.shorts.iter().copied()),
            Shape::Any { .. } | Shape::Literal { .. } => *raw = true,
            Shape::Battery(_) => banned.extend(['v', 'q']),
            Shape::Cmd { opts, shorts, .. } => {
                banned.extend(shorts.iter().copied());
                for n in [&opts.help_names, &opts.version_names].into_iter().flatten() {
                    banned.extend(n.shorts.iter().copied());
                }
                if opts.cargo.is_some() {
                    *raw = true;
                }
                // (a hidden command hides everything in it from the bundle splitter as well)
                go(&opts.root, hidden, flags, banned, raw)
            }
            Shape::Wrap(w, i) => go(i, hidden || matches!(w, W::Hide), flags, banned, raw),
            Shape::Seq(xs, _) | Shape::Alt(xs) => {
                for x in xs {
                    go(x, hidden, flags, banned, raw)
                }
            }
            _ => {}
        }
    }
    go(&opts.root, false, &mut flags, &mut banned, &mut raw);
    if raw || opts.cargo.is_some() {
        return Vec::new();
    }
    match &opts.help_names {
        None => flags.push('h'),
        Some(n) => flags.extend(n.shorts.iter().copied()),
    }
    match &opts.version_names {
        None => flags.push('V'),
        Some(n) => flags.extend(n.shorts.iter().copied()),
    }
    flags.retain(|c| !banned.contains(c) && c.is_ascii_alphanumeric());
    flags.sort_unstable();
    flags.dedup();
    flags
}

fn show(b: &[u8]) -> String {
    exec::clip(&String::from_utf8_lossy(b), 300)
}

fn is_prefix(short: &[u8], long: &[u8]) -> bool {
    long.len() >= short.len() && &long[..short.len()] == short
}

/// compare an observation with the promise; `faulted` selects the narrow relaxation
fn judge(
    e: &Expected,
    stdout: &[u8],
    stderr: &[u8],
    status: i32,
    body: &Option<String>,
    faulted: bool,
    faults_fired: u32,
    must_fail: bool,
    who: &str,
) -> Option<(String, String)> {
    let detail = |what: &str| {
        format!(
            "{} [{}]: {}\nexpected: class {} status {} body {:?}\n  stdout {:?}\n  stderr {:?}\nobserved: status {} body {:?}\n  stdout {:?}\n  stderr {:?}",
            who,
            if faulted { "stream faults configured" } else { "fault-free" },
            what,
            e.class,
            e.status,
            e.body,
            show(&e.stdout),
            show(&e.stderr),
            status,
            body,
            show(stdout),
            show(stderr)
        )
    };
    if body.is_some() != e.body.is_some() {
        return Some((
            format!("rule=P1 body-reached={} class={}", body.is_some(), e.class),
            detail("program body reached iff a value was produced"),
        ));
    }
    if let (Some(a), Some(b)) = (body, &e.body) {
        if a != b {
            return Some((
                format!("rule=P1 wrong-value class={}", e.class),
                detail("the value handed to the program differs"),
            ));
        }
    }
    if !faulted || faults_fired == 0 {
        if stdout != &e.stdout[..] {
            return Some((
                format!("rule=P1 stdout class={}", e.class),
                detail("stdout differs"),
            ));
        }
        if stderr != &e.stderr[..] {
            return Some((
                format!("rule=P1 stderr class={}", e.class),
                detail("stderr differs"),
            ));
        }
        if status != e.status {
            return Some((
                format!("rule=P1 status={} class={}", status, e.class),
                detail("exit status differs"),
            ));
        }
        return None;
    }
    // a stream fault fired: text may be cut short, never misdirected or invented.
    // (When the failed write made the process panic, the unwind destroys the parser, and a
    // destructor of a value it owns may be heard on stdout after whatever got through.)
    const BELL: &[u8] = b"bell: a value owned by the parser was dropped\n";
    let mut heard: &[u8] = stdout;
    if status == 101 {
        // (the last ring may itself be cut short by the failing descriptor)
        for k in (1..BELL.len()).rev() {
            if heard.ends_with(&BELL[..k]) {
                heard = &heard[..heard.len() - k];
                break;
            }
        }
        while heard.ends_with(BELL) {
            heard = &heard[..heard.len() - BELL.len()];
        }
    }
    let stdout = heard;
    if !is_prefix(stdout, &e.stdout) {
        return Some((
            format!("rule=P2 stdout-not-prefix class={}", e.class),
            detail("bytes on stdout are not a prefix of the promised stdout"),
        ));
    }
    if !is_prefix(stderr, &e.stderr) {
        return Some((
            format!("rule=P2 stderr-not-prefix class={}", e.class),
            detail("bytes on stderr are not a prefix of the promised stderr"),
        ));
    }
    if status != e.status && status != 101 {
        return Some((
            format!("rule=P2 status={} class={}", status, e.class),
            detail("exit status is neither the promised one nor the runtime's panic status"),
        ));
    }
    // text that cannot be delivered in full (the descriptor fails before the end of it) is a
    // failed print: the process has to say so - std's print macros panic, status 101 - and not
    // exit as if the help, the completions or the error message had been shown
    if must_fail && status != 101 {
        return Some((
            format!("rule=P2 failed-write-not-reported status={} class={}", status, e.class),
            detail("the promised text cannot have been written in full, yet the exit status reports no failure"),
        ));
    }
    None
}

pub struct RealObs {
    pub stdout: Vec<u8>,
    pub stderr: Vec<u8>,
    pub status: i32,
    pub body: Option<String>,
    pub panicked: bool,
}

fn stdio_for(f: &StreamFault) -> Result<(Stdio, bool), String> {
    match f {
        StreamFault::None => Ok((Stdio::piped(), false)),
        StreamFault::Closed => Ok((Stdio::null(), true)),
        StreamFault::ErrAt { at: 0, errno } if errno.starts_with("No space") => {
            let f = std::fs::OpenOptions::new()
                .write(true)
                .open("/dev/full")
                .map_err(|e| e.to_string())?;
            Ok((Stdio::from(f), false))
        }
        StreamFault::ErrAt { at: 0, .. } => {
            let (r, w) = std::io::pipe().map_err(|e| e.to_string())?;
            drop(r);
            Ok((Stdio::from(w), false))
        }
        _ => Err("fault not representable with a real descriptor".to_string()),
    }
}

pub fn spawn_real(
    exe: &str,
    opts: &Opts,
    argv: &[Tok],
    out_fault: &StreamFault,
    err_fault: &StreamFault,
    env: &[(Tok, Tok)],
    tag: &str,
) -> Result<RealObs, String> {
    let _ = std::fs::create_dir_all(marker_dir());
    let marker = format!("{}/{}-{}", marker_dir(), std::process::id(), tag);
    let _ = std::fs::remove_file(&marker);
    // a terminal on one stream: the child gets the slave side, a thread drains the master
    let mut pty_master: Option<(std::fs::File, bool)> = None;
    let (so, close_out) = if *out_fault == StreamFault::Tty {
        let (m, sl) = open_pty()?;
        pty_master = Some((m, true));
        (Stdio::from(sl), false)
    } else {
        stdio_for(out_fault)?
    };
    let (se, close_err) = if *err_fault == StreamFault::Tty {
        let (m, sl) = open_pty()?;
        pty_master = Some((m, false));
        (Stdio::from(sl), false)
    } else {
        stdio_for(err_fault)?
    };
    let mut cmd = Command::new(exe);
    cmd.arg0(OsString::from_vec(argv[0].clone()));
    for a in &argv[1..] {
        cmd.arg(OsString::from_vec(a.clone()));
    }
    cmd.env_clear();
    for (k, v) in env {
        cmd.env(OsString::from_vec(k.clone()), OsString::from_vec(v.clone()));
    }
    if pty_master.is_some() {
        // a terminal that could show colours, so that a colour build has the choice
        cmd.env("TERM", "xterm-256color");
    }
    cmd.stdin(Stdio::piped()).stdout(so).stderr(se);
    if close_out || close_err {
        unsafe {
            cmd.pre_exec(move || {
                if close_out {
                    close(1);
                }
                if close_err {
                    close(2);
                }
                Ok(())
            });
        }
    }
    let mut child = cmd.spawn().map_err(|e| format!("spawn {}: {}", exe, e))?;
    {
        let def = crate::json::J::obj(vec![
            ("opts", opts.to_j()),
            ("marker", crate::json::J::s(marker.clone())),
        ])
        .to_string();
        let mut stdin = child.stdin.take().ok_or("no stdin")?;
        stdin.write_all(def.as_bytes()).map_err(|e| e.to_string())?;
    }
    // the Command still holds the slave descriptor; release it so the master sees the end
    drop(cmd);
    let pty_reader = pty_master.map(|(mut m, is_stdout)| {
        let h = std::thread::spawn(move || {
            use std::io::Read;
            let mut all = Vec::new();
            let mut buf = [0u8; 4096];
            loop {
                match m.read(&mut buf) {
                    Ok(0) => break,
                    Ok(n) => all.extend_from_slice(&buf[..n]),
                    // EIO: the last slave descriptor is closed
                    Err(_) => break,
                }
            }
            all
        });
        (h, is_stdout)
    });
    let mut out = child.wait_with_output().map_err(|e| e.to_string())?;
    if let Some((h, is_stdout)) = pty_reader {
        let raw = h.join().map_err(|_| "pty reader panicked".to_string())?;
        // the terminal's output processing turns \n into \r\n
        let mut text = Vec::with_capacity(raw.len());
        let mut i = 0;
        while i < raw.len() {
            if raw[i] == b'\r' && raw.get(i + 1) == Some(&b'\n') {
                i += 1;
                continue;
            }
            text.push(raw[i]);
            i += 1;
        }
        if is_stdout {
            out.stdout = text;
        } else {
            out.stderr = text;
        }
    }
    let status = match out.status.code() {
        Some(c) => c,
        None => return Err(format!("child killed by a signal: {}", out.status)),
    };
    if (90..=93).contains(&status) {
        return Err(format!("child could not read its definition (status {})", status));
    }
    let body = std::fs::read_to_string(&marker).ok();
    let _ = std::fs::remove_file(&marker);
    let mut stderr = out.stderr;
    let mut panicked = false;
    if status == 101 {
        // the runtime's own report of the panic is not bpaf's output
        let needle = b"thread 'main'";
        if let Some(ix) = stderr.windows(needle.len()).position(|w| w == needle) {
            let cut = if ix > 0 && stderr[ix - 1] == b'\n' { ix - 1 } else { ix };
            stderr.truncate(cut);
            panicked = true;
        }
    }
    Ok(RealObs {
        stdout: out.stdout,
        stderr,
        status,
        body,
        panicked,
    })
}

pub fn run_case(case: &Case, stats: &mut Stats) -> RunReport {
    let mut report = RunReport::default();
    let mut h = Fnv::new();
    crate::world::with(|s| {
        s.env.clear();
        for (k, v) in &case.env {
            s.env.insert(k.clone(), v.clone());
        }
    });
    if !case.env.is_empty() {
        stats.bump("probe.launch_with_environment");
    }
    let opts = match case.parsers.first() {
        Some(o) => o,
        None => {
            report.invalid = true;
            return report;
        }
    };
    if exec::build_checked(opts).is_none() {
        report.invalid = true;
        return report;
    }
    let mut classes = std::collections::BTreeSet::new();
    let mut seam_events = 0u64;
    // ---- P6: `batteries::get_usage(parser)` is documented as the text `--help` prints
    {
        let help_line = [b"--help".to_vec()];
        let twin = exec::build_unchecked(opts);
        let pred = exec::run_inner(&twin, &help_line, &None, None, None, crate::c04::BUDGET_BASE);
        drop(twin);
        if let Outcome::Stdout(text) = &pred.outcome {
            let twin = exec::build_unchecked(opts);
            let got = std::panic::catch_unwind(std::panic::AssertUnwindSafe(move || {
                bpaf::batteries::get_usage(twin)
            }));
            stats.bump("rule.P6.evaluated");
            let ok = matches!(&got, Ok(u) if u == text);
            if !ok {
                report.violation = Some(Violation {
                    rule: "P6".into(),
                    op_index: 0,
                    key: "rule=P6 get_usage".into(),
                    detail: format!(
                        "batteries::get_usage differs from what `--help` prints\n--help   : {:?}\nget_usage: {:?}",
                        exec::clip(text, 400),
                        got.as_ref().map(|u| exec::clip(u, 400)).unwrap_or_else(|_| "<panicked>".into())
                    ),
                });
                report.hash = h.finish();
                return report;
            }
        }
    }
    macro_rules! violation {
        ($rule:expr, $ix:expr, $key:expr, $detail:expr) => {{
            let key: String = $key;
            if crate::is_known("C11", &key) {
                // a recorded finding: count it and carry on with the run
                stats.bump(&format!("known-finding.{}", key));
            } else {
                report.violation = Some(Violation {
                    rule: $rule.to_string(),
                    op_index: $ix,
                    key,
                    detail: $detail,
                });
                report.hash = h.finish();
                return report;
            }
        }};
    }
    for (ix, op) in case.ops.iter().enumerate() {
        let (argv, out_fault, err_fault, real) = match op {
            Op::Launch {
                argv,
                out_fault,
                err_fault,
                real,
                ..
            } => (argv, out_fault, err_fault, *real),
            _ => continue,
        };
        stats.bump("op.launch");
        let is_fault = |f: &StreamFault| !matches!(f, StreamFault::None | StreamFault::Tty);
        let faulted = is_fault(out_fault) || is_fault(err_fault);
        let has_tty = *out_fault == StreamFault::Tty || *err_fault == StreamFault::Tty;
        if has_tty {
            stats.bump("probe.launch_with_a_terminal_on_one_stream");
        }
        let budget = crate::c04::budget_for(op);
        // ---- the promise
        let name = name_of(argv);
        let rest: &[Tok] = if argv.is_empty() { &[] } else { &argv[1..] };
        let twin = exec::build_unchecked(opts);
        let pred = exec::run_inner(&twin, rest, &name, None, None, budget);
        drop(twin);
        let e = match predict(&pred) {
            Prediction::Expected(mut e) => {
                // `run(self)` consumes the parser: when it returns a value the parser - and
                // what it owns - is gone before the program body starts; when it prints and
                // exits nothing is destroyed
                if e.class == "value" {
                    for _ in 0..opts.bells() {
                        e.stdout
                            .extend_from_slice(b"bell: a value owned by the parser was dropped\n");
                    }
                }
                if opts.bells() > 0 {
                    stats.bump("probe.parser_owns_a_value_with_a_destructor");
                }
                e
            }
            Prediction::Abnormal(what) => {
                stats.bump("prediction.abnormal");
                h.write_str(&what);
                continue;
            }
            Prediction::Bad(key, detail) => {
                violation!("P3", ix, key, detail);
                continue;
            }
        };
        // a definition with its own `max_width`: `run()` has to print at that width. The promise
        // is then what `ParseFailure::print_message(width)` writes for the failure `run_inner`
        // returned (fault-free world) instead of the default-width `monochrome()` text
        let e = match (opts.max_width, e.class) {
            (Some(w), "stdout") | (Some(w), "stderr") => {
                let twin = exec::build_unchecked(opts);
                let printed = exec::run_and_print(&twin, rest, &name, w, budget);
                drop(twin);
                stats.bump("probe.promise_rendered_at_own_width");
                match printed.outcome {
                    Outcome::Text(_) => Expected {
                        stdout: printed.out.clone(),
                        stderr: printed.err.clone(),
                        ..e
                    },
                    other => {
                        stats.bump("prediction.abnormal");
                        h.write_str(&format!("{:?}", other));
                        continue;
                    }
                }
            }
            _ => e,
        };
        // ---- P5: help/version/usage on stdout and completion output need a cause on the
        // command line; everything else that is not a value is a parse failure and belongs
        // on stderr with status 1
        if e.class == "stdout" && !stdout_has_cause(opts, rest) {
            violation!(
                "P5",
                ix,
                "rule=P5 stdout-without-request".to_string(),
                format!(
                    "run_inner answered on stdout with status 0 although the command line {:?} neither asks for help/version nor is an empty line of a fallback_to_usage level; a parse failure must go to stderr with status 1\nstdout would be: {:?}",
                    rest.iter().map(|t| String::from_utf8_lossy(t).to_string()).collect::<Vec<_>>(),
                    show(&e.stdout)
                )
            );
        }
        let switches = &rest[..rest.iter().position(|t| t == b"--").unwrap_or(rest.len())];
        if e.class == "script" && !switches.iter().any(|t| t.starts_with(b"--bpaf-complete-style-")) {
            violation!(
                "P5",
                ix,
                "rule=P5 script-without-request".to_string(),
                format!(
                    "a completion script was dumped although no `--bpaf-complete-style-*` switch precedes the first `--` of {:?}; words after `--` are positional",
                    rest.iter().map(|t| String::from_utf8_lossy(t).to_string()).collect::<Vec<_>>()
                )
            );
        }
        if e.class == "completion" && !switches.iter().any(|t| t.starts_with(b"--bpaf-complete-rev=")) {
            violation!(
                "P5",
                ix,
                "rule=P5 completion-without-request".to_string(),
                "completion output although no completion was requested".to_string()
            );
        }
        // ---- P9: a completion request never runs the program: with a supported
        // `--bpaf-complete-rev=N` among the switches the shell is asking what could come next,
        // and whatever the answer is, it is not "here is your parsed value, go ahead"
        {
            let asked = switches.iter().any(|t| {
                t.strip_prefix(b"--bpaf-complete-rev=")
                    .and_then(|n| std::str::from_utf8(n).ok())
                    .and_then(|n| n.parse::<usize>().ok())
                    .map_or(false, |n| matches!(n, 0 | 1 | 7 | 8 | 9))
            });
            if asked {
                stats.bump("rule.P9.evaluated");
                stats.bump(&format!("probe.class_under_completion_request.{}", e.class));
                let rev_first = rest.first().map_or(false, |t| {
                    t.strip_prefix(b"--bpaf-complete-rev=")
                        .and_then(|n| std::str::from_utf8(n).ok())
                        .and_then(|n| n.parse::<usize>().ok())
                        .map_or(false, |n| matches!(n, 0 | 1 | 7 | 8 | 9))
                });
                if rev_first {
                    let mut usage_somewhere = false;
                    opts.walk_opts(&mut |o| usage_somewhere |= o.fallback_to_usage);
                    stats.bump("rule.P9first.evaluated");
                    stats.bump(&format!(
                        "probe.class_when_request_comes_first.{}{}",
                        e.class,
                        if usage_somewhere { "+usage-level" } else { "" }
                    ));
                }
                if e.class == "stderr" {
                    let text = String::from_utf8_lossy(&e.stderr).to_string();
                    let kind = if text.contains("as both an option and an option-argument") {
                        "ambiguity"
                    } else {
                        "other"
                    };
                    stats.bump(&format!("probe.stderr_under_completion_request.{}", kind));
                }
                if rest.iter().any(|t| std::str::from_utf8(t).is_err()) {
                    stats.bump("probe.completion_request_with_non_utf8_word");
                }
                // the way the shell stubs ask - the switch in front of everything - the answer
                // is a completion reply (or, when some level has `fallback_to_usage` and sees
                // nothing, its usage): an ambiguous bundle is no error while a line is being
                // completed, and a parse failure is what completion is there to prevent
                let mut usage_somewhere = false;
                opts.walk_opts(&mut |o| usage_somewhere |= o.fallback_to_usage);
                let style_too = rest.iter().any(|t| t.starts_with(b"--bpaf-complete-style-"));
                if rev_first
                    && !style_too
                    && e.class != "completion"
                    && !(e.class == "stdout" && usage_somewhere)
                    && e.class != "value"
                {
                    violation!(
                        "P9",
                        ix,
                        format!("rule=P9 request-answered-with class={}", e.class),
                        format!(
                            "the command line {:?} starts with a completion request, yet the answer is of class {}\nstdout would be: {:?}\nstderr would be: {:?}",
                            rest.iter().map(|t| String::from_utf8_lossy(t).to_string()).collect::<Vec<_>>(),
                            e.class,
                            show(&e.stdout),
                            show(&e.stderr)
                        )
                    );
                }
                if e.class == "value" {
                    violation!(
                        "P9",
                        ix,
                        "rule=P9 completion-request-runs-the-program".to_string(),
                        format!(
                            "the command line {:?} is a completion request, yet run_inner returns a value and run() would start the program body with {:?}",
                            rest.iter().map(|t| String::from_utf8_lossy(t).to_string()).collect::<Vec<_>>(),
                            e.body
                        )
                    );
                }
            }
        }
        // ---- P8: a bundle of short flags is a spelling of the separate flags
        {
            let letters = bundle_letters(opts);
            let before = &rest[..rest.iter().position(|t| t == b"--").unwrap_or(rest.len())];
            let plain_line = !rest.iter().any(|t| t.starts_with(b"--bpaf-complete-"));
            let found = before.iter().position(|t| {
                t.len() >= 3
                    && t[0] == b'-'
                    && t[1..].iter().all(|b| letters.contains(&(*b as char)))
                    && (1..t.len()).all(|i| !t[i + 1..].contains(&t[i]))
            });
            if let (Some(at), true) = (found, plain_line && !letters.is_empty()) {
                let mut split: Vec<Tok> = rest[..at].to_vec();
                for b in &rest[at][1..] {
                    split.push(vec![b'-', *b]);
                }
                split.extend_from_slice(&rest[at + 1..]);
                let twin = exec::build_unchecked(opts);
                let other = exec::run_inner(&twin, &split, &name, None, None, budget);
                drop(twin);
                stats.bump("rule.P8.evaluated");
                let same = match (&pred.outcome, &other.outcome) {
                    (Outcome::Value(a), Outcome::Value(b)) => a == b,
                    (Outcome::Stdout(a), Outcome::Stdout(b)) => a == b,
                    (a, b) => a.class() == b.class(),
                };
                if !same {
                    violation!(
                        "P8",
                        ix,
                        format!("rule=P8 bundle classes={}/{}", pred.outcome.class(), other.outcome.class()),
                        format!(
                            "the bundle {:?} is made of short flags only (no letter names an argument, a hidden item or a nested level's help), yet spelling the flags one by one changes the outcome\nbundled : {:?}\nseparate: {:?}",
                            String::from_utf8_lossy(&rest[at]),
                            pred.outcome,
                            other.outcome
                        )
                    );
                }
            }
        }
        // ---- P7: a plain request for help or version is answered on stdout, at any level
        if plain_request(opts, rest) {
            stats.bump("rule.P7.evaluated");
            if rest.len() > 1 {
                stats.bump("probe.plain_request_inside_a_command");
            }
            if e.class != "stdout" {
                violation!(
                    "P7",
                    ix,
                    format!("rule=P7 request-not-answered class={}", e.class),
                    format!(
                        "the command line {:?} is a path of command names followed by a help/version name of every level on it, and nothing else in the definition can take that word, yet the outcome is of class {}\nstdout would be: {:?}\nstderr would be: {:?}",
                        rest.iter().map(|t| String::from_utf8_lossy(t).to_string()).collect::<Vec<_>>(),
                        e.class,
                        show(&e.stdout),
                        show(&e.stderr)
                    )
                );
            }
        }
        stats.bump("rule.P5.evaluated");
        stats.bump(&format!("class.{}", e.class));
        classes.insert(e.class);
        match argv.first() {
            None => stats.bump("probe.argc_zero"),
            Some(a0) => {
                if std::str::from_utf8(a0).is_err() {
                    stats.bump("probe.argv0_non_utf8");
                }
                if a0.contains(&b'/') {
                    stats.bump("probe.argv0_is_a_path");
                }
            }
        }
        if name.is_none() {
            stats.bump("probe.no_program_name");
        }
        // ---- tier A: the simulated process
        let obs: ProcObs = exec::launch(opts, argv, out_fault, err_fault, budget);
        stats.bump(&format!(
            "entry.{}",
            match crate::shape::entry_for(opts, rest) {
                1 => "Parser_run",
                2 => "try_run",
                _ => "OptionParser_run",
            }
        ));
        stats.add("ticks.total", obs.ticks);
        stats.max("ticks.max_per_op", obs.ticks);
        stats.max("bytes.sim_stdout_max", obs.stdout.len() as u64);
        stats.max("bytes.sim_stderr_max", obs.stderr.len() as u64);
        seam_events += 1;
        let fired = obs.out_faults + obs.err_faults;
        for (f, n, fd) in [(out_fault, obs.out_faults, "stdout"), (err_fault, obs.err_faults, "stderr")] {
            let kind = match f {
                StreamFault::None | StreamFault::Tty => continue,
                StreamFault::Closed => "closed",
                StreamFault::ErrAt { at: 0, errno } if errno.starts_with("No space") => "enospc_at_0",
                StreamFault::ErrAt { at: 0, .. } => "epipe_at_0",
                StreamFault::ErrAt { .. } => "enospc_mid_stream",
            };
            stats.bump(&format!("fault.{}_{}.configured", fd, kind));
            if n > 0 {
                stats.bump(&format!("fault.{}_{}.fired", fd, kind));
            }
        }
        if obs.status == 101 {
            stats.bump("probe.simulated_process_panicked");
        }
        {
            let fk = |f: &StreamFault| match f {
                StreamFault::None => "ok",
                StreamFault::Tty => "tty",
                StreamFault::Closed => "closed",
                StreamFault::ErrAt { at: 0, .. } => "err0",
                StreamFault::ErrAt { .. } => "errk",
            };
            let a0 = match argv.first() {
                None => "argc0",
                Some(a) if std::str::from_utf8(a).is_err() => "nonutf8",
                Some(a) if a.contains(&b'/') => "path",
                Some(a) if a.is_empty() => "empty",
                Some(_) => "plain",
            };
            let sk = opts.skeleton();
            stats.state(&[&sk, e.class, a0, fk(out_fault), fk(err_fault), &obs.status.to_string()]);
        }
        if e.class == "script" {
            stats.bump("probe.exit_inside_run_inner");
        }
        h.write(&obs.stdout);
        h.write(&obs.stderr);
        h.write_u64(obs.status as u64);
        report.trace.push(format!(
            "launch {}: status {} body {:?} stdout {:?} stderr {:?}",
            ix,
            obs.status,
            obs.body,
            show(&obs.stdout),
            show(&obs.stderr)
        ));
        let body = obs.body.as_ref().map(|v| format!("{:?}", v));
        // stdout is line buffered: what follows the last line feed waits for the flush at exit,
        // whose failure std ignores; stderr is not buffered at all
        let cut = |f: &StreamFault, promised: usize| matches!(f, StreamFault::ErrAt { at, .. } if promised > *at);
        let out_sync = e.stdout.iter().rposition(|b| *b == b'\n').map_or(0, |ix| ix + 1);
        let must_fail = e.class != "value" && (cut(out_fault, out_sync) || cut(err_fault, e.stderr.len()));
        if must_fail {
            stats.bump("probe.promised_text_cannot_be_delivered");
        }
        if let Some((key, detail)) = judge(
            &e,
            &obs.stdout,
            &obs.stderr,
            obs.status,
            &body,
            faulted,
            fired,
            must_fail,
            "simulated process",
        ) {
            let rule = if key.starts_with("rule=P2") { "P2" } else { "P1" };
            violation!(rule, ix, key, detail);
        }
        if faulted {
            stats.bump("rule.P2.evaluated");
        } else {
            stats.bump("rule.P1.evaluated");
        }
        // ---- tier B: a real child process of the unhooked build
        if real && !argv.is_empty() {
            let dull = has_tty || argv.iter().map(|a| a.len()).sum::<usize>() % 2 == 1;
            let exe = realproc(dull);
            match spawn_real(&exe, opts, argv, out_fault, err_fault, &case.env, &format!("{}-{}", case.run, ix)) {
                Err(why) => {
                    stats.bump("real.harness_error");
                    h.write_str("real-harness-error");
                    if stats.get("real.harness_error") <= 3 {
                        eprintln!("real child: {}", why);
                    }
                }
                Ok(ro) => {
                    stats.bump("real.spawned");
                    stats.max("bytes.real_stdout_max", ro.stdout.len() as u64);
                    stats.max("bytes.real_stderr_max", ro.stderr.len() as u64);
                    if ro.stdout.len() > 65536 || ro.stderr.len() > 65536 {
                        stats.bump("probe.real_output_larger_than_a_pipe_buffer");
                    }
                    if has_tty {
                        stats.bump("real.tty_child");
                    }
                    stats.bump(if dull {
                        "real.variant_dull_color"
                    } else {
                        "real.variant_plain"
                    });
                    // whether a fault fired in the child is visible from outside only through
                    // its effects; a configured fault counts as potentially fired
                    let rfired = if faulted { 1 } else { 0 };
                    if let Some((key, detail)) = judge(
                        &e,
                        &ro.stdout,
                        &ro.stderr,
                        ro.status,
                        &ro.body,
                        faulted,
                        rfired,
                        must_fail,
                        "real child process",
                    ) {
                        // an unfaulted real child that is wrong, or a faulted one that breaks
                        // the narrow rule, is a violation like any other
                        let key = key.replacen("rule=P1", "rule=P4", 1).replacen("rule=P2", "rule=P4", 1);
                        violation!("P4", ix, key, detail);
                    }
                    stats.bump("rule.P4.evaluated");
                    // calibration of the stream stub against the real runtime
                    let same = ro.stdout == obs.stdout
                        && ro.stderr == obs.stderr
                        && ro.status == obs.status
                        && ro.body == body;
                    if same {
                        stats.bump("real.agrees_with_simulation");
                    } else if faulted {
                        stats.bump("real.calibration_difference_under_fault");
                    } else {
                        violation!(
                            "P4",
                            ix,
                            "rule=P4 real-vs-simulated".to_string(),
                            format!(
                                "fault-free real child and simulated process disagree\nreal: status {} body {:?} stdout {:?} stderr {:?}\nsim : status {} body {:?} stdout {:?} stderr {:?}",
                                ro.status,
                                ro.body,
                                show(&ro.stdout),
                                show(&ro.stderr),
                                obs.status,
                                body,
                                show(&obs.stdout),
                                show(&obs.stderr)
                            )
                        );
                    }
                    if ro.panicked {
                        stats.bump("probe.real_child_panicked");
                    }
                }
            }
        }
    }
    report.hash = h.finish();
    if seam_events > 0 && classes.len() >= 2 {
        report.nontrivial = Some(case.content_hash());
    }
    report
}
