//! Parser definitions as data: a small AST interpreted into real bpaf parsers through the public
//! API (including the real `construct!` macro), serialisable so a replay file carries the
//! definition itself rather than a PRNG state.
use crate::json::J;
use crate::val::{self, Val};
use crate::world::cb_enter;
use bpaf::doc::{Doc, MetaInfo, Style};
use bpaf::parsers::NamedArg;
use bpaf::{construct, OptionParser, Parser, ShellComp};
use std::cell::RefCell;
use std::collections::BTreeMap;
use std::ffi::OsString;
use std::os::unix::ffi::OsStringExt;
use std::str::FromStr;

pub type S = &'static str;
pub type P = Box<dyn Parser<Val>>;

thread_local! {
    static INTERN: RefCell<BTreeMap<String, S>> = RefCell::new(BTreeMap::new());
}

pub fn intern(s: &str) -> S {
    INTERN.with(|m| {
        let mut m = m.borrow_mut();
        if let Some(v) = m.get(s) {
            return *v;
        }
        let leaked: S = Box::leak(s.to_string().into_boxed_str());
        m.insert(s.to_string(), leaked);
        leaked
    })
}

#[derive(Clone, Debug, PartialEq, Default)]
pub struct Named {
    pub shorts: Vec<char>,
    pub longs: Vec<S>,
    pub envs: Vec<S>,
    pub help: Option<S>,
}

#[derive(Clone, Copy, Debug, PartialEq, Eq)]
pub enum Ty {
    Str,
    Int,
    Os,
    /// `PathBuf`, the other type bpaf takes from the OS string without decoding
    Path,
    /// user type whose `FromStr` is a harness callback
    Num,
}

#[derive(Clone, Debug, PartialEq)]
pub enum W {
    Optional { catch: bool },
    Many { catch: bool },
    Some_ { catch: bool, msg: S },
    Collect { catch: bool },
    Count,
    Last,
    Fallback { val: i64, display: u8 },
    /// `fallback` to a value with an audible destructor (C11 only)
    FallbackBell,
    FallbackWith { kind: u8, display: u8 },
    Guard { kind: u8, msg: S },
    Parse { kind: u8 },
    Map { tag: u32 },
    Hide,
    HideUsage,
    CustomUsage(S),
    GroupHelp(S),
    WithGroupHelp(S),
    Complete { kind: u8, group: Option<S> },
    CompleteShell { kind: u8 },
    Boxed,
}

#[derive(Clone, Debug, PartialEq)]
pub enum Shape {
    Switch(Named),
    Flag(Named, i64, i64),
    ReqFlag(Named, i64),
    Arg {
        named: Named,
        metavar: S,
        ty: Ty,
        adjacent: bool,
    },
    Pos {
        metavar: S,
        ty: Ty,
        strict: u8,
        help: Option<S>,
    },
    Any {
        metavar: S,
        anywhere: bool,
        pred: u8,
        help: Option<S>,
    },
    Literal {
        lit: S,
        anywhere: bool,
    },
    Pure(i64),
    PureWith(u8),
    Fail(S),
    /// parsers from `bpaf::batteries`: 0 verbose_and_quiet_by_number, 1 verbose_by_slice,
    /// 2 toggle_flag(--on, --off), 3/4 verbose_and_quiet_by_number with an offset at the edge of isize
    Battery(u8),
    Cmd {
        name: S,
        shorts: Vec<char>,
        longs: Vec<S>,
        help: Option<S>,
        adjacent: bool,
        opts: Box<Opts>,
    },
    Wrap(W, Box<Shape>),
    Seq(Vec<Shape>, bool),
    Alt(Vec<Shape>),
}

#[derive(Clone, Debug, PartialEq)]
pub struct Opts {
    pub root: Shape,
    pub descr: Option<S>,
    pub header: Option<S>,
    pub footer: Option<S>,
    pub version: Option<S>,
    pub usage: Option<S>,
    pub with_usage: bool,
    pub help_names: Option<Named>,
    pub version_names: Option<Named>,
    pub fallback_to_usage: bool,
    /// wrap the root into `batteries::cargo_helper(cmd, ..)`
    pub cargo: Option<S>,
    /// `OptionParser::max_width`
    pub max_width: Option<usize>,
}

impl Opts {
    pub fn plain(root: Shape) -> Opts {
        Opts {
            root,
            descr: None,
            header: None,
            footer: None,
            version: None,
            usage: None,
            with_usage: false,
            help_names: None,
            version_names: None,
            fallback_to_usage: false,
            cargo: None,
            max_width: None,
        }
    }
}

// ---------------------------------------------------------------------------------------------
// building real parsers

/// user type with a fallible, observable `FromStr`
#[derive(Clone, Debug)]
pub struct Num(pub i64);

impl FromStr for Num {
    type Err = String;
    fn from_str(s: &str) -> Result<Self, String> {
        if cb_enter() {
            return Err("injected FromStr failure".to_string());
        }
        s.parse::<i64>()
            .map(Num)
            .map_err(|e| format!("not a num: {}", e))
    }
}

pub fn named_arg(n: &Named) -> NamedArg {
    let mut cur: Option<NamedArg> = None;
    for c in &n.shorts {
        cur = Some(match cur {
            None => bpaf::short(*c),
            Some(x) => x.short(*c),
        });
    }
    for l in &n.longs {
        cur = Some(match cur {
            None => bpaf::long(l),
            Some(x) => x.long(l),
        });
    }
    for e in &n.envs {
        cur = Some(match cur {
            None => bpaf::env(e),
            Some(x) => x.env(e),
        });
    }
    let mut cur = cur.expect("generator never emits a nameless item");
    if let Some(h) = n.help {
        cur = cur.help(styled(h));
    }
    cur
}

/// `any` predicates by kind; `None` = not accepted
pub fn any_pred(kind: u8, os: &OsString) -> Option<Val> {
    let b = os.clone().into_vec();
    let ok = match kind {
        // everything
        0 => true,
        // things that start with '+'
        1 => b.first() == Some(&b'+'),
        // things that do not look like options
        2 => b.first() != Some(&b'-'),
        // valid utf8 only
        _ => std::str::from_utf8(&b).is_ok(),
    };
    if ok {
        Some(Val::Os(b))
    } else {
        None
    }
}

pub fn completions(kind: u8, v: &Val) -> Vec<(String, Option<String>)> {
    match kind {
        0 => vec![
            ("alpha".to_string(), None),
            ("beta".to_string(), Some("second letter".to_string())),
        ],
        1 => Vec::new(),
        2 => vec![("only".to_string(), None)],
        3 => vec![
            ("ta\tb".to_string(), Some("has\ttab".to_string())),
            ("new\nline".to_string(), Some("multi\nline".to_string())),
            ("quo'te\"d".to_string(), Some("$(rm -rf) `x` \\".to_string())),
            (String::new(), Some(String::new())),
            ("-dash".to_string(), None),
            ("\u{e9}\u{4e16}".to_string(), Some("\u{1f600}".to_string())),
        ],
        4 => (0..1000)
            .map(|i| (format!("item{}", i), Some(format!("descr {}", i))))
            .collect(),
        _ => vec![(format!("{}x", v), None)],
    }
}

fn shell_comp(kind: u8) -> ShellComp {
    match kind {
        0 => ShellComp::File { mask: None },
        1 => ShellComp::Dir {
            mask: Some("*.rs"),
        },
        2 => ShellComp::Raw {
            bash: "bash 'raw' $x",
            zsh: "zsh \"raw\"",
            fish: "fish\traw",
            elvish: "elvish\nraw",
        },
        3 => ShellComp::File {
            mask: Some("*.'\"$(x)"),
        },
        _ => ShellComp::Nothing,
    }
}

macro_rules! seq_arm {
    ($v:ident, $adj:ident, $($n:ident),+) => {{
        let mut it = $v.into_iter();
        $(let $n = it.next().unwrap();)+
        let p = construct!($($n),+);
        if $adj {
            p.adjacent().map(|($($n),+)| Val::Tup(vec![$($n),+])).boxed()
        } else {
            p.map(|($($n),+)| Val::Tup(vec![$($n),+])).boxed()
        }
    }};
}

macro_rules! alt_arm {
    ($v:ident, $($n:ident),+) => {{
        let mut it = $v.into_iter();
        $(let $n = it.next().unwrap();)+
        construct!([$($n),+]).boxed()
    }};
}

/// A help text as the user may give it: a plain string, or - when the text contains U+0001
/// separators - a styled document made of several pieces (`&[(&str, Style)]`)
pub fn styled(s: &str) -> Doc {
    if !s.contains('\u{1}') {
        return Doc::from(s);
    }
    let styles = [Style::Text, Style::Literal, Style::Emphasis, Style::Metavar, Style::Invalid];
    let parts: Vec<(&str, Style)> = s
        .split('\u{1}')
        .enumerate()
        .map(|(i, part)| (part, styles[i % styles.len()]))
        .collect();
    Doc::from(&parts[..])
}

fn typed_arg(named: &Named, metavar: S, ty: Ty, adjacent: bool) -> P {
    let n = named_arg(named);
    macro_rules! fin {
        ($t:ty, $f:expr) => {{
            let a = n.argument::<$t>(metavar);
            if adjacent {
                a.adjacent().map($f).boxed()
            } else {
                a.map($f).boxed()
            }
        }};
    }
    match ty {
        Ty::Str => fin!(String, Val::Str),
        Ty::Int => fin!(i64, Val::Int),
        Ty::Os => fin!(OsString, |o: OsString| Val::Os(o.into_vec())),
        Ty::Path => fin!(std::path::PathBuf, |o: std::path::PathBuf| Val::Os(o.into_os_string().into_vec())),
        Ty::Num => fin!(Num, |n: Num| Val::Int(n.0)),
    }
}

fn typed_pos(metavar: S, ty: Ty, strict: u8, help: Option<S>) -> P {
    macro_rules! fin {
        ($t:ty, $f:expr) => {{
            let mut a = bpaf::positional::<$t>(metavar);
            if let Some(h) = help {
                a = a.help(styled(h));
            }
            match strict {
                1 => a.strict().map($f).boxed(),
                2 => a.non_strict().map($f).boxed(),
                _ => a.map($f).boxed(),
            }
        }};
    }
    match ty {
        Ty::Str => fin!(String, Val::Str),
        Ty::Int => fin!(i64, Val::Int),
        Ty::Os => fin!(OsString, |o: OsString| Val::Os(o.into_vec())),
        Ty::Path => fin!(std::path::PathBuf, |o: std::path::PathBuf| Val::Os(o.into_os_string().into_vec())),
        Ty::Num => fin!(Num, |n: Num| Val::Int(n.0)),
    }
}

pub fn build(shape: &Shape) -> P {
    match shape {
        Shape::Switch(n) => named_arg(n).switch().map(Val::Bool).boxed(),
        Shape::Flag(n, a, b) => named_arg(n).flag(Val::Int(*a), Val::Int(*b)).boxed(),
        Shape::ReqFlag(n, a) => named_arg(n).req_flag(Val::Int(*a)).boxed(),
        Shape::Arg {
            named,
            metavar,
            ty,
            adjacent,
        } => typed_arg(named, metavar, *ty, *adjacent),
        Shape::Pos {
            metavar,
            ty,
            strict,
            help,
        } => typed_pos(metavar, *ty, *strict, *help),
        Shape::Any {
            metavar,
            anywhere,
            pred,
            help,
        } => {
            let pred = *pred;
            let mut a = bpaf::any::<OsString, Val, _>(metavar, move |os: OsString| {
                if cb_enter() {
                    return None;
                }
                any_pred(pred, &os)
            });
            if let Some(h) = help {
                a = a.help(styled(h));
            }
            if *anywhere {
                a = a.anywhere();
            }
            a.boxed()
        }
        Shape::Literal { lit, anywhere } => {
            let mut a = bpaf::literal(lit);
            if *anywhere {
                a = a.anywhere();
            }
            a.map(|()| Val::Unit).boxed()
        }
        Shape::Pure(n) => bpaf::pure(Val::Int(*n)).boxed(),
        Shape::PureWith(kind) => {
            let kind = *kind;
            bpaf::pure_with::<Val, _, String>(move || {
                if cb_enter() || kind == 1 {
                    Err("pure_with failed".to_string())
                } else {
                    Ok(Val::Int(val::PURE_WITH_OK))
                }
            })
            .boxed()
        }
        Shape::Fail(msg) => bpaf::fail::<Val>(msg).boxed(),
        Shape::Battery(kind) => match kind {
            0 => bpaf::batteries::verbose_and_quiet_by_number(2, 0, 5)
                .map(|n| Val::Int(n as i64))
                .boxed(),
            1 => bpaf::batteries::verbose_by_slice(1, [10i64, 20, 30])
                .map(Val::Int)
                .boxed(),
            // extreme but ordered parameters: min <= max holds, the offset is at the edge
            3 => bpaf::batteries::verbose_and_quiet_by_number(isize::MAX, 0, 5)
                .map(|n| Val::Int(n as i64))
                .boxed(),
            4 => bpaf::batteries::verbose_and_quiet_by_number(isize::MIN, -5, 0)
                .map(|n| Val::Int(n as i64))
                .boxed(),
            _ => bpaf::batteries::toggle_flag(bpaf::long("on"), 1i64, bpaf::long("off"), 0i64)
                .map(|o| Val::Opt(o.map(|v| Box::new(Val::Int(v)))))
                .boxed(),
        },
        Shape::Cmd {
            name,
            shorts,
            longs,
            help,
            adjacent,
            opts,
        } => {
            let mut c = build_opts(opts).command(name);
            for s in shorts {
                c = c.short(*s);
            }
            for l in longs {
                c = c.long(l);
            }
            if let Some(h) = help {
                c = c.help(styled(h));
            }
            if *adjacent {
                c = c.adjacent();
            }
            c.boxed()
        }
        Shape::Wrap(w, inner) => build_wrap(w, build(inner)),
        Shape::Seq(fields, adjacent) => {
            let adj = *adjacent;
            let v: Vec<P> = fields.iter().map(build).collect();
            match v.len() {
                0 => bpaf::pure(Val::Unit).boxed(),
                1 => {
                    let mut it = v.into_iter();
                    let a = it.next().unwrap();
                    construct!(a).map(|a| Val::Tup(vec![a])).boxed()
                }
                2 => seq_arm!(v, adj, a, b),
                3 => seq_arm!(v, adj, a, b, c),
                4 => seq_arm!(v, adj, a, b, c, d),
                5 => seq_arm!(v, adj, a, b, c, d, e),
                6 => seq_arm!(v, adj, a, b, c, d, e, f),
                _ => panic!("harness: sequences are limited to 6 fields"),
            }
        }
        Shape::Alt(alts) => {
            let v: Vec<P> = alts
                .iter()
                .enumerate()
                .map(|(i, s)| {
                    let i = i as u32;
                    build(s).map(move |v| Val::Tag(100 + i, Box::new(v))).boxed()
                })
                .collect();
            match v.len() {
                0 => bpaf::fail::<Val>("no alternatives").boxed(),
                1 => v.into_iter().next().unwrap(),
                2 => alt_arm!(v, a, b),
                3 => alt_arm!(v, a, b, c),
                4 => alt_arm!(v, a, b, c, d),
                _ => bpaf::choice(v).boxed(),
            }
        }
    }
}

fn build_wrap(w: &W, p: P) -> P {
    fn opt(v: Option<Val>) -> Val {
        Val::Opt(v.map(Box::new))
    }
    match w {
        W::Optional { catch } => {
            if *catch {
                p.optional().catch().map(opt).boxed()
            } else {
                p.optional().map(opt).boxed()
            }
        }
        W::Many { catch } => {
            if *catch {
                p.many().catch().map(Val::List).boxed()
            } else {
                p.many().map(Val::List).boxed()
            }
        }
        W::Some_ { catch, msg } => {
            if *catch {
                p.some(msg).catch().map(Val::List).boxed()
            } else {
                p.some(msg).map(Val::List).boxed()
            }
        }
        W::Collect { catch } => {
            if *catch {
                p.collect::<Vec<Val>>().catch().map(Val::List).boxed()
            } else {
                p.collect::<Vec<Val>>().map(Val::List).boxed()
            }
        }
        W::Count => p.count().map(Val::Count).boxed(),
        W::Last => p.last().boxed(),
        W::Fallback { val, display } => {
            let f = p.fallback(Val::Int(*val));
            match display {
                1 => f.display_fallback().boxed(),
                2 => f.debug_fallback().boxed(),
                3 => f
                    .format_fallback(|v, f| write!(f, "<{}>", v))
                    .boxed(),
                _ => f.boxed(),
            }
        }
        W::FallbackBell => p
            .fallback(Val::Bell(val::Bell { armed: true }))
            .boxed(),
        W::FallbackWith { kind, display } => {
            let kind = *kind;
            let f = p.fallback_with(move || -> Result<Val, String> {
                if cb_enter() || kind == 1 {
                    Err("fallback_with failed".to_string())
                } else {
                    Ok(Val::Int(val::FALLBACK_WITH_OK))
                }
            });
            match display {
                1 => f.display_fallback().boxed(),
                2 => f.debug_fallback().boxed(),
                3 => f
                    .format_fallback(|v, f| write!(f, "<{}>", v))
                    .boxed(),
                _ => f.boxed(),
            }
        }
        W::Guard { kind, msg } => {
            let kind = *kind;
            p.guard(
                move |v: &Val| {
                    if cb_enter() {
                        return false;
                    }
                    val::guard_ok(kind, v)
                },
                msg,
            )
            .boxed()
        }
        W::Parse { kind } => {
            let kind = *kind;
            p.parse(move |v: Val| -> Result<Val, String> {
                if cb_enter() {
                    return Err("injected parse failure".to_string());
                }
                val::parse_fn(kind, v)
            })
            .boxed()
        }
        W::Map { tag } => {
            let tag = *tag;
            p.map(move |v| {
                cb_enter();
                Val::Tag(tag, Box::new(v))
            })
            .boxed()
        }
        W::Hide => p.hide().boxed(),
        W::HideUsage => p.hide_usage().boxed(),
        W::CustomUsage(s) => p.custom_usage(*s).boxed(),
        W::GroupHelp(s) => p.group_help(styled(s)).boxed(),
        W::WithGroupHelp(s) => {
            let s = *s;
            p.with_group_help(move |meta: MetaInfo| {
                cb_enter();
                let mut d = Doc::default();
                d.text(s);
                d.text(" ");
                d.meta(meta, true);
                d
            })
            .boxed()
        }
        W::Complete { kind, group } => {
            let kind = *kind;
            let c = p.complete(move |v: &Val| {
                if cb_enter() {
                    return Vec::new();
                }
                completions(kind, v)
            });
            match group {
                Some(g) => c.group(*g).boxed(),
                None => c.boxed(),
            }
        }
        W::CompleteShell { kind } => p.complete_shell(shell_comp(*kind)).boxed(),
        W::Boxed => p.boxed().boxed(),
    }
}

pub fn build_opts(o: &Opts) -> OptionParser<Val> {
    let root = build(&o.root);
    let mut p = match o.cargo {
        Some(cmd) => bpaf::batteries::cargo_helper(cmd, root).to_options(),
        None => root.to_options(),
    };
    if let Some(d) = o.descr {
        p = p.descr(styled(d));
    }
    if let Some(d) = o.header {
        p = p.header(styled(d));
    }
    if let Some(d) = o.footer {
        p = p.footer(styled(d));
    }
    if let Some(v) = o.version {
        p = p.version(v);
    }
    if let Some(u) = o.usage {
        p = p.usage(u);
    }
    if o.with_usage {
        p = p.with_usage(|u| {
            let mut d = Doc::default();
            d.emphasis("Custom usage: ");
            d.doc(&u);
            d
        });
    }
    if let Some(n) = &o.help_names {
        p = p.help_parser(named_arg(n));
    }
    if let Some(n) = &o.version_names {
        p = p.version_parser(named_arg(n));
    }
    if o.fallback_to_usage {
        p = p.fallback_to_usage();
    }
    if let Some(w) = o.max_width {
        p = p.max_width(w);
    }
    p
}

/// Which way into bpaf a launched process takes, as a function of what it was launched with
/// (the simulated process and the real child compute it alike): 0 `OptionParser::run`,
/// 1 the trait method `Parser::run` (only for a definition without decorations, which is what
/// it builds), 2 the documented `try_run` pattern: print the failure, exit with its code.
pub fn entry_for(o: &Opts, args_after_argv0: &[Vec<u8>]) -> u8 {
    if o.bells() > 0 {
        // `try_run(self)` destroys the parser before anything is printed; keep to `run`
        return 0;
    }
    let n: usize = args_after_argv0.iter().map(|a| a.len() + 1).sum();
    match n % 3 {
        1 if *o == Opts::plain(o.root.clone()) => 1,
        2 => 2,
        _ => 0,
    }
}

/// the program's `main` up to the point where it has its value
pub fn run_via(o: &Opts, entry: u8) -> Val {
    match entry {
        1 => build(&o.root).run(),
        2 => {
            let p = build_opts(o);
            #[allow(deprecated)]
            match p.try_run() {
                Ok(v) => v,
                Err(f) => {
                    // (a program that prints by hand passes the width it configured)
                    f.print_message(o.max_width.unwrap_or(100));
                    crate::world::exit(f.exit_code())
                }
            }
        }
        _ => build_opts(o).run(),
    }
}

// ---------------------------------------------------------------------------------------------
// queries

impl Shape {
    /// every node, pre-order
    pub fn walk<'a>(&'a self, f: &mut dyn FnMut(&'a Shape)) {
        f(self);
        match self {
            Shape::Cmd { opts, .. } => opts.root.walk(f),
            Shape::Wrap(_, i) => i.walk(f),
            Shape::Seq(xs, _) | Shape::Alt(xs) => {
                for x in xs {
                    x.walk(f)
                }
            }
            _ => {}
        }
    }

    pub fn named(&self) -> Option<&Named> {
        match self {
            Shape::Switch(n) | Shape::Flag(n, _, _) | Shape::ReqFlag(n, _) => Some(n),
            Shape::Arg { named, .. } => Some(named),
            _ => None,
        }
    }

    pub fn size(&self) -> usize {
        let mut n = 0;
        self.walk(&mut |_| n += 1);
        n
    }

    /// short structural label used for "distinct state" accounting
    pub fn skeleton(&self) -> String {
        match self {
            Shape::Switch(n) => format!("sw{}", env_mark(n)),
            Shape::Flag(n, _, _) => format!("fl{}", env_mark(n)),
            Shape::ReqFlag(n, _) => format!("rf{}", env_mark(n)),
            Shape::Arg { named, ty, adjacent, .. } => {
                format!("arg{:?}{}{}", ty, if *adjacent { "=" } else { "" }, env_mark(named))
            }
            Shape::Pos { ty, strict, .. } => format!("pos{:?}{}", ty, strict),
            Shape::Any { anywhere, .. } => format!("any{}", if *anywhere { "*" } else { "" }),
            Shape::Literal { anywhere, .. } => format!("lit{}", if *anywhere { "*" } else { "" }),
            Shape::Pure(_) => "pure".into(),
            Shape::PureWith(k) => format!("purew{}", k),
            Shape::Fail(_) => "fail".into(),
            Shape::Battery(k) => format!("bat{}", k),
            Shape::Cmd { adjacent, opts, .. } => {
                format!("cmd{}<{}>", if *adjacent { "=" } else { "" }, opts.root.skeleton())
            }
            Shape::Wrap(w, i) => format!("{}({})", w.label(), i.skeleton()),
            Shape::Seq(xs, adj) => format!(
                "{}({})",
                if *adj { "adj" } else { "seq" },
                xs.iter().map(|x| x.skeleton()).collect::<Vec<_>>().join(",")
            ),
            Shape::Alt(xs) => format!(
                "alt[{}]",
                xs.iter().map(|x| x.skeleton()).collect::<Vec<_>>().join("|")
            ),
        }
    }
}

fn env_mark(n: &Named) -> &'static str {
    match n.envs.len() {
        0 => "",
        1 => "$",
        _ => "$$",
    }
}

impl W {
    pub fn label(&self) -> String {
        match self {
            W::Optional { catch } => format!("opt{}", c(*catch)),
            W::Many { catch } => format!("many{}", c(*catch)),
            W::Some_ { catch, .. } => format!("some{}", c(*catch)),
            W::Collect { catch } => format!("coll{}", c(*catch)),
            W::Count => "count".into(),
            W::Last => "last".into(),
            W::Fallback { display, .. } => format!("fb{}", display),
            W::FallbackBell => "fbbell".into(),
            W::FallbackWith { kind, display } => format!("fbw{}{}", kind, display),
            W::Guard { kind, .. } => format!("guard{}", kind),
            W::Parse { kind } => format!("parse{}", kind),
            W::Map { .. } => "map".into(),
            W::Hide => "hide".into(),
            W::HideUsage => "hideu".into(),
            W::CustomUsage(_) => "cusage".into(),
            W::GroupHelp(_) => "gh".into(),
            W::WithGroupHelp(_) => "wgh".into(),
            W::Complete { kind, .. } => format!("comp{}", kind),
            W::CompleteShell { kind } => format!("compsh{}", kind),
            W::Boxed => "box".into(),
        }
    }
}

fn c(b: bool) -> &'static str {
    if b {
        "!"
    } else {
        ""
    }
}

impl Opts {
    /// how many values with an audible destructor the definition owns
    pub fn bells(&self) -> usize {
        let mut n = 0;
        self.root.walk(&mut |s| {
            if let Shape::Wrap(W::FallbackBell, _) = s {
                n += 1;
            }
        });
        n
    }

    /// all environment variable names declared anywhere in the definition
    pub fn declared_envs(&self) -> Vec<S> {
        let mut out = Vec::new();
        self.walk_opts(&mut |o| {
            for n in [&o.help_names, &o.version_names].into_iter().flatten() {
                out.extend(n.envs.iter().copied());
            }
            o.root.walk(&mut |s| {
                if let Shape::Cmd { .. } = s {
                    return;
                }
                if let Some(n) = s.named() {
                    out.extend(n.envs.iter().copied());
                }
            });
        });
        out.sort_unstable();
        out.dedup();
        out
    }

    /// this Opts and every nested command's Opts
    pub fn walk_opts<'a>(&'a self, f: &mut dyn FnMut(&'a Opts)) {
        f(self);
        let mut subs: Vec<&'a Opts> = Vec::new();
        self.root.walk(&mut |s| {
            if let Shape::Cmd { opts, .. } = s {
                subs.push(opts);
            }
        });
        // `walk` already descends into commands, so `subs` holds every nested level
        for o in subs {
            f(o);
        }
    }

    pub fn skeleton(&self) -> String {
        format!(
            "{}{}{}{}",
            self.root.skeleton(),
            if self.version.is_some() { "+v" } else { "" },
            if self.fallback_to_usage { "+u" } else { "" },
            if self.cargo.is_some() { "+c" } else { "" }
        )
    }
}

// ---------------------------------------------------------------------------------------------
// JSON

fn js(s: S) -> J {
    J::s(s)
}
fn jos(s: &Option<S>) -> J {
    match s {
        Some(s) => J::s(*s),
        None => J::Null,
    }
}
fn os_from(j: Option<&J>) -> Result<Option<S>, String> {
    match j {
        None | Some(J::Null) => Ok(None),
        Some(j) => Ok(Some(intern(j.as_str()?))),
    }
}
fn chars_to_j(cs: &[char]) -> J {
    J::s(cs.iter().collect::<String>())
}
fn chars_from(j: Option<&J>) -> Result<Vec<char>, String> {
    match j {
        None | Some(J::Null) => Ok(Vec::new()),
        Some(j) => Ok(j.as_str()?.chars().collect()),
    }
}
fn strs_from(j: Option<&J>) -> Result<Vec<S>, String> {
    match j {
        None | Some(J::Null) => Ok(Vec::new()),
        Some(j) => j
            .as_arr()?
            .iter()
            .map(|x| x.as_str().map(intern))
            .collect(),
    }
}
fn b_from(j: Option<&J>) -> bool {
    matches!(j, Some(J::Bool(true)))
}
fn u8_from(j: Option<&J>) -> u8 {
    match j {
        Some(J::Int(i)) => *i as u8,
        _ => 0,
    }
}

impl Named {
    pub fn to_j(&self) -> J {
        let mut kv = Vec::new();
        if !self.shorts.is_empty() {
            kv.push(("short", chars_to_j(&self.shorts)));
        }
        if !self.longs.is_empty() {
            kv.push(("long", J::arr(self.longs.iter(), |s| js(s))));
        }
        if !self.envs.is_empty() {
            kv.push(("env", J::arr(self.envs.iter(), |s| js(s))));
        }
        if let Some(h) = self.help {
            kv.push(("help", js(h)));
        }
        J::obj(kv)
    }
    pub fn from_j(j: &J) -> Result<Named, String> {
        Ok(Named {
            shorts: chars_from(j.get("short"))?,
            longs: strs_from(j.get("long"))?,
            envs: strs_from(j.get("env"))?,
            help: os_from(j.get("help"))?,
        })
    }
}

fn ty_s(t: Ty) -> &'static str {
    match t {
        Ty::Str => "str",
        Ty::Int => "int",
        Ty::Os => "os",
        Ty::Path => "path",
        Ty::Num => "num",
    }
}
fn ty_from(j: Option<&J>) -> Result<Ty, String> {
    match j.map(|j| j.as_str()).transpose()? {
        Some("str") | None => Ok(Ty::Str),
        Some("int") => Ok(Ty::Int),
        Some("os") => Ok(Ty::Os),
        Some("path") => Ok(Ty::Path),
        Some("num") => Ok(Ty::Num),
        Some(o) => Err(format!("bad ty {}", o)),
    }
}

impl W {
    pub fn to_j(&self) -> J {
        match self {
            W::Optional { catch } => J::obj(vec![("w", J::s("optional")), ("catch", J::Bool(*catch))]),
            W::Many { catch } => J::obj(vec![("w", J::s("many")), ("catch", J::Bool(*catch))]),
            W::Some_ { catch, msg } => J::obj(vec![
                ("w", J::s("some")),
                ("catch", J::Bool(*catch)),
                ("msg", js(msg)),
            ]),
            W::Collect { catch } => J::obj(vec![("w", J::s("collect")), ("catch", J::Bool(*catch))]),
            W::Count => J::obj(vec![("w", J::s("count"))]),
            W::Last => J::obj(vec![("w", J::s("last"))]),
            W::Fallback { val, display } => J::obj(vec![
                ("w", J::s("fallback")),
                ("val", J::Int(*val)),
                ("display", J::Int(*display as i64)),
            ]),
            W::FallbackBell => J::obj(vec![("w", J::s("fallback_bell"))]),
            W::FallbackWith { kind, display } => J::obj(vec![
                ("w", J::s("fallback_with")),
                ("kind", J::Int(*kind as i64)),
                ("display", J::Int(*display as i64)),
            ]),
            W::Guard { kind, msg } => J::obj(vec![
                ("w", J::s("guard")),
                ("kind", J::Int(*kind as i64)),
                ("msg", js(msg)),
            ]),
            W::Parse { kind } => J::obj(vec![("w", J::s("parse")), ("kind", J::Int(*kind as i64))]),
            W::Map { tag } => J::obj(vec![("w", J::s("map")), ("tag", J::Int(*tag as i64))]),
            W::Hide => J::obj(vec![("w", J::s("hide"))]),
            W::HideUsage => J::obj(vec![("w", J::s("hide_usage"))]),
            W::CustomUsage(s) => J::obj(vec![("w", J::s("custom_usage")), ("text", js(s))]),
            W::GroupHelp(s) => J::obj(vec![("w", J::s("group_help")), ("text", js(s))]),
            W::WithGroupHelp(s) => J::obj(vec![("w", J::s("with_group_help")), ("text", js(s))]),
            W::Complete { kind, group } => J::obj(vec![
                ("w", J::s("complete")),
                ("kind", J::Int(*kind as i64)),
                ("group", jos(group)),
            ]),
            W::CompleteShell { kind } => J::obj(vec![
                ("w", J::s("complete_shell")),
                ("kind", J::Int(*kind as i64)),
            ]),
            W::Boxed => J::obj(vec![("w", J::s("boxed"))]),
        }
    }
    pub fn from_j(j: &J) -> Result<W, String> {
        let catch = b_from(j.get("catch"));
        let kind = u8_from(j.get("kind"));
        let display = u8_from(j.get("display"));
        let text = || -> Result<S, String> { Ok(intern(j.req("text")?.as_str()?)) };
        Ok(match j.req("w")?.as_str()? {
            "optional" => W::Optional { catch },
            "many" => W::Many { catch },
            "some" => W::Some_ {
                catch,
                msg: intern(j.req("msg")?.as_str()?),
            },
            "collect" => W::Collect { catch },
            "count" => W::Count,
            "last" => W::Last,
            "fallback" => W::Fallback {
                val: j.req("val")?.as_i64()?,
                display,
            },
            "fallback_bell" => W::FallbackBell,
            "fallback_with" => W::FallbackWith { kind, display },
            "guard" => W::Guard {
                kind,
                msg: intern(j.req("msg")?.as_str()?),
            },
            "parse" => W::Parse { kind },
            "map" => W::Map {
                tag: j.req("tag")?.as_i64()? as u32,
            },
            "hide" => W::Hide,
            "hide_usage" => W::HideUsage,
            "custom_usage" => W::CustomUsage(text()?),
            "group_help" => W::GroupHelp(text()?),
            "with_group_help" => W::WithGroupHelp(text()?),
            "complete" => W::Complete {
                kind,
                group: os_from(j.get("group"))?,
            },
            "complete_shell" => W::CompleteShell { kind },
            "boxed" => W::Boxed,
            o => return Err(format!("bad wrapper {}", o)),
        })
    }
}

impl Shape {
    pub fn to_j(&self) -> J {
        match self {
            Shape::Switch(n) => J::obj(vec![("k", J::s("switch")), ("named", n.to_j())]),
            Shape::Flag(n, a, b) => J::obj(vec![
                ("k", J::s("flag")),
                ("named", n.to_j()),
                ("present", J::Int(*a)),
                ("absent", J::Int(*b)),
            ]),
            Shape::ReqFlag(n, a) => J::obj(vec![
                ("k", J::s("req_flag")),
                ("named", n.to_j()),
                ("present", J::Int(*a)),
            ]),
            Shape::Arg {
                named,
                metavar,
                ty,
                adjacent,
            } => J::obj(vec![
                ("k", J::s("argument")),
                ("named", named.to_j()),
                ("metavar", js(metavar)),
                ("ty", J::s(ty_s(*ty))),
                ("adjacent", J::Bool(*adjacent)),
            ]),
            Shape::Pos {
                metavar,
                ty,
                strict,
                help,
            } => J::obj(vec![
                ("k", J::s("positional")),
                ("metavar", js(metavar)),
                ("ty", J::s(ty_s(*ty))),
                ("strict", J::Int(*strict as i64)),
                ("help", jos(help)),
            ]),
            Shape::Any {
                metavar,
                anywhere,
                pred,
                help,
            } => J::obj(vec![
                ("k", J::s("any")),
                ("metavar", js(metavar)),
                ("anywhere", J::Bool(*anywhere)),
                ("pred", J::Int(*pred as i64)),
                ("help", jos(help)),
            ]),
            Shape::Literal { lit, anywhere } => J::obj(vec![
                ("k", J::s("literal")),
                ("lit", js(lit)),
                ("anywhere", J::Bool(*anywhere)),
            ]),
            Shape::Pure(n) => J::obj(vec![("k", J::s("pure")), ("val", J::Int(*n))]),
            Shape::PureWith(k) => J::obj(vec![("k", J::s("pure_with")), ("kind", J::Int(*k as i64))]),
            Shape::Fail(m) => J::obj(vec![("k", J::s("fail")), ("msg", js(m))]),
            Shape::Battery(k) => J::obj(vec![("k", J::s("battery")), ("kind", J::Int(*k as i64))]),
            Shape::Cmd {
                name,
                shorts,
                longs,
                help,
                adjacent,
                opts,
            } => J::obj(vec![
                ("k", J::s("command")),
                ("name", js(name)),
                ("short", chars_to_j(shorts)),
                ("long", J::arr(longs.iter(), |s| js(s))),
                ("help", jos(help)),
                ("adjacent", J::Bool(*adjacent)),
                ("opts", opts.to_j()),
            ]),
            Shape::Wrap(w, inner) => {
                let mut o = match w.to_j() {
                    J::Obj(kv) => kv,
                    _ => unreachable!(),
                };
                o.insert(0, ("k".to_string(), J::s("wrap")));
                o.push(("inner".to_string(), inner.to_j()));
                J::Obj(o)
            }
            Shape::Seq(xs, adj) => J::obj(vec![
                ("k", J::s("seq")),
                ("adjacent", J::Bool(*adj)),
                ("fields", J::arr(xs.iter(), |x| x.to_j())),
            ]),
            Shape::Alt(xs) => J::obj(vec![
                ("k", J::s("alt")),
                ("alts", J::arr(xs.iter(), |x| x.to_j())),
            ]),
        }
    }

    pub fn from_j(j: &J) -> Result<Shape, String> {
        let named = || -> Result<Named, String> { Named::from_j(j.req("named")?) };
        Ok(match j.req("k")?.as_str()? {
            "switch" => Shape::Switch(named()?),
            "flag" => Shape::Flag(named()?, j.req("present")?.as_i64()?, j.req("absent")?.as_i64()?),
            "req_flag" => Shape::ReqFlag(named()?, j.req("present")?.as_i64()?),
            "argument" => Shape::Arg {
                named: named()?,
                metavar: intern(j.req("metavar")?.as_str()?),
                ty: ty_from(j.get("ty"))?,
                adjacent: b_from(j.get("adjacent")),
            },
            "positional" => Shape::Pos {
                metavar: intern(j.req("metavar")?.as_str()?),
                ty: ty_from(j.get("ty"))?,
                strict: u8_from(j.get("strict")),
                help: os_from(j.get("help"))?,
            },
            "any" => Shape::Any {
                metavar: intern(j.req("metavar")?.as_str()?),
                anywhere: b_from(j.get("anywhere")),
                pred: u8_from(j.get("pred")),
                help: os_from(j.get("help"))?,
            },
            "literal" => Shape::Literal {
                lit: intern(j.req("lit")?.as_str()?),
                anywhere: b_from(j.get("anywhere")),
            },
            "pure" => Shape::Pure(j.req("val")?.as_i64()?),
            "pure_with" => Shape::PureWith(u8_from(j.get("kind"))),
            "fail" => Shape::Fail(intern(j.req("msg")?.as_str()?)),
            "battery" => Shape::Battery(u8_from(j.get("kind"))),
            "command" => Shape::Cmd {
                name: intern(j.req("name")?.as_str()?),
                shorts: chars_from(j.get("short"))?,
                longs: strs_from(j.get("long"))?,
                help: os_from(j.get("help"))?,
                adjacent: b_from(j.get("adjacent")),
                opts: Box::new(Opts::from_j(j.req("opts")?)?),
            },
            "wrap" => Shape::Wrap(W::from_j(j)?, Box::new(Shape::from_j(j.req("inner")?)?)),
            "seq" => Shape::Seq(
                j.req("fields")?
                    .as_arr()?
                    .iter()
                    .map(Shape::from_j)
                    .collect::<Result<_, _>>()?,
                b_from(j.get("adjacent")),
            ),
            "alt" => Shape::Alt(
                j.req("alts")?
                    .as_arr()?
                    .iter()
                    .map(Shape::from_j)
                    .collect::<Result<_, _>>()?,
            ),
            o => return Err(format!("bad shape kind {}", o)),
        })
    }
}

impl Opts {
    pub fn to_j(&self) -> J {
        let mut kv = vec![("root", self.root.to_j())];
        if let Some(s) = self.descr {
            kv.push(("descr", js(s)));
        }
        if let Some(s) = self.header {
            kv.push(("header", js(s)));
        }
        if let Some(s) = self.footer {
            kv.push(("footer", js(s)));
        }
        if let Some(s) = self.version {
            kv.push(("version", js(s)));
        }
        if let Some(s) = self.usage {
            kv.push(("usage", js(s)));
        }
        if self.with_usage {
            kv.push(("with_usage", J::Bool(true)));
        }
        if let Some(n) = &self.help_names {
            kv.push(("help_names", n.to_j()));
        }
        if let Some(n) = &self.version_names {
            kv.push(("version_names", n.to_j()));
        }
        if self.fallback_to_usage {
            kv.push(("fallback_to_usage", J::Bool(true)));
        }
        if let Some(c) = self.cargo {
            kv.push(("cargo_helper", js(c)));
        }
        if let Some(w) = self.max_width {
            kv.push(("max_width", J::Int(w as i64)));
        }
        J::obj(kv)
    }
    pub fn from_j(j: &J) -> Result<Opts, String> {
        Ok(Opts {
            root: Shape::from_j(j.req("root")?)?,
            descr: os_from(j.get("descr"))?,
            header: os_from(j.get("header"))?,
            footer: os_from(j.get("footer"))?,
            version: os_from(j.get("version"))?,
            usage: os_from(j.get("usage"))?,
            with_usage: b_from(j.get("with_usage")),
            help_names: j.get("help_names").map(Named::from_j).transpose()?,
            version_names: j.get("version_names").map(Named::from_j).transpose()?,
            fallback_to_usage: b_from(j.get("fallback_to_usage")),
            cargo: os_from(j.get("cargo_helper"))?,
            max_width: match j.get("max_width") {
                Some(J::Int(n)) => Some(*n as usize),
                _ => None,
            },
        })
    }
}
