//! Greedy delta-debugging of a failing case: drop operations, parsers, environment entries and
//! faults, shrink command lines and definitions, while the same oracle rule keeps failing.
use crate::exec::{Case, Op, Tok};
use crate::shape::{Named, Opts, Shape};
use crate::stats::Violation;
use crate::world::StreamFault;

pub struct Minimizer<'a> {
    pub run: &'a mut dyn FnMut(&Case) -> Option<Violation>,
    pub budget: usize,
    pub used: usize,
}

fn same(a: &Violation, rule: &str) -> bool {
    a.rule == rule
}

impl<'a> Minimizer<'a> {
    fn still_fails(&mut self, c: &Case, rule: &str) -> bool {
        if self.used >= self.budget {
            return false;
        }
        self.used += 1;
        match (self.run)(c) {
            Some(v) => same(&v, rule),
            None => false,
        }
    }

    pub fn minimize(&mut self, case: &Case, rule: &str) -> Case {
        let mut best = case.clone();
        // everything after the failing operation is irrelevant
        if let Some(v) = (self.run)(&best) {
            if v.rule == rule && v.op_index + 1 < best.ops.len() {
                let mut c = best.clone();
                c.ops.truncate(v.op_index + 1);
                if self.still_fails(&c, rule) {
                    best = c;
                }
            }
        }
        loop {
            let mut progressed = false;
            for cand in candidates(&best) {
                if self.used >= self.budget {
                    return best;
                }
                if self.still_fails(&cand, rule) {
                    best = cand;
                    progressed = true;
                    break;
                }
            }
            if !progressed {
                return best;
            }
        }
    }
}

/// one-step reductions, most aggressive first
fn candidates(c: &Case) -> Vec<Case> {
    let mut out = Vec::new();
    // drop the interlude of a T7 case, whole or in part
    if !c.interlude.is_empty() {
        let mut x = c.clone();
        x.interlude.clear();
        out.push(x);
        for i in 0..c.interlude.len() {
            let mut x = c.clone();
            x.interlude.remove(i);
            if !x.interlude.is_empty() {
                out.push(x);
            }
        }
        for (i, inner) in c.interlude.iter().enumerate() {
            for j in (0..inner.ops.len()).rev() {
                if inner.ops.len() > 1 {
                    if let Some(y) = drop_op(inner, j) {
                        let mut x = c.clone();
                        x.interlude[i] = y;
                        out.push(x);
                    }
                }
            }
        }
    }
    // drop operations
    for i in (0..c.ops.len()).rev() {
        if c.ops.len() == 1 {
            break;
        }
        if let Some(x) = drop_op(c, i) {
            out.push(x);
        }
    }
    // drop initial parsers
    if c.parsers.len() > 1 {
        for i in 0..c.parsers.len() {
            if let Some(x) = drop_parser(c, i) {
                out.push(x);
            }
        }
    }
    // drop env entries
    for i in 0..c.env.len() {
        let mut x = c.clone();
        x.env.remove(i);
        out.push(x);
    }
    // simplify operations
    for (i, op) in c.ops.iter().enumerate() {
        for o in shrink_op(op) {
            let mut x = c.clone();
            x.ops[i] = o;
            out.push(x);
        }
    }
    // shrink definitions
    for (i, p) in c.parsers.iter().enumerate() {
        for o in shrink_opts(p) {
            let mut x = c.clone();
            x.parsers[i] = o;
            out.push(x);
        }
    }
    for (i, op) in c.ops.iter().enumerate() {
        if let Op::NewParser { opts } = op {
            for o in shrink_opts(opts) {
                let mut x = c.clone();
                x.ops[i] = Op::NewParser { opts: o };
                out.push(x);
            }
        }
    }
    out
}

fn op_parser(op: &Op) -> Option<usize> {
    match op {
        Op::Run { p, .. }
        | Op::Render { p, .. }
        | Op::Check { p }
        | Op::Launch { p, .. }
        | Op::Print { p, .. } => Some(*p),
        _ => None,
    }
}

fn set_parser(op: &mut Op, np: usize) {
    match op {
        Op::Run { p, .. }
        | Op::Render { p, .. }
        | Op::Check { p }
        | Op::Launch { p, .. }
        | Op::Print { p, .. } => *p = np,
        _ => {}
    }
}

/// remove parser id `gone` from all later operations (dropping those that use it)
fn remap(ops: &mut Vec<Op>, from: usize, gone: usize) {
    let mut i = from;
    while i < ops.len() {
        match op_parser(&ops[i]) {
            Some(p) if p == gone => {
                ops.remove(i);
                continue;
            }
            Some(p) if p > gone => set_parser(&mut ops[i], p - 1),
            _ => {}
        }
        i += 1;
    }
}

fn drop_op(c: &Case, i: usize) -> Option<Case> {
    let mut x = c.clone();
    if let Op::NewParser { .. } = &c.ops[i] {
        // its id = initial parsers + NewParser ops before it
        let id = c.parsers.len()
            + c.ops[..i]
                .iter()
                .filter(|o| matches!(o, Op::NewParser { .. }))
                .count();
        x.ops.remove(i);
        remap(&mut x.ops, i, id);
    } else {
        x.ops.remove(i);
    }
    if x.ops.is_empty() {
        None
    } else {
        Some(x)
    }
}

fn drop_parser(c: &Case, i: usize) -> Option<Case> {
    let mut x = c.clone();
    x.parsers.remove(i);
    remap(&mut x.ops, 0, i);
    if x.ops.is_empty() {
        None
    } else {
        Some(x)
    }
}

fn shrink_toks(v: &[Tok]) -> Vec<Vec<Tok>> {
    let mut out = Vec::new();
    if v.len() > 1 {
        out.push(v[..v.len() / 2].to_vec());
        out.push(v[v.len() / 2..].to_vec());
    }
    for i in 0..v.len() {
        let mut x = v.to_vec();
        x.remove(i);
        out.push(x);
    }
    for i in 0..v.len() {
        let t = &v[i];
        if t.len() > 4 {
            let mut x = v.to_vec();
            x[i] = t[..t.len() / 2].to_vec();
            out.push(x);
            // keep the head of a long cluster
            let mut x = v.to_vec();
            x[i] = t[..4].to_vec();
            out.push(x);
        }
        if t.len() > 1 && t.len() <= 12 {
            for k in 0..t.len() {
                let mut x = v.to_vec();
                x[i].remove(k);
                out.push(x);
            }
        }
    }
    out
}

fn shrink_op(op: &Op) -> Vec<Op> {
    let mut out = Vec::new();
    match op {
        Op::Run {
            p,
            argv,
            name,
            comp,
            cb,
        } => {
            if cb.is_some() {
                out.push(Op::Run {
                    p: *p,
                    argv: argv.clone(),
                    name: name.clone(),
                    comp: *comp,
                    cb: None,
                });
            }
            if let Some((k, f)) = cb {
                if *k > 1 {
                    out.push(Op::Run {
                        p: *p,
                        argv: argv.clone(),
                        name: name.clone(),
                        comp: *comp,
                        cb: Some((k - 1, *f)),
                    });
                }
            }
            if name.is_some() {
                out.push(Op::Run {
                    p: *p,
                    argv: argv.clone(),
                    name: None,
                    comp: *comp,
                    cb: *cb,
                });
                if name.as_deref() != Some("app") {
                    out.push(Op::Run {
                        p: *p,
                        argv: argv.clone(),
                        name: Some("app".into()),
                        comp: *comp,
                        cb: *cb,
                    });
                }
            }
            if comp.is_some() {
                out.push(Op::Run {
                    p: *p,
                    argv: argv.clone(),
                    name: name.clone(),
                    comp: None,
                    cb: *cb,
                });
            }
            for a in shrink_toks(argv) {
                out.push(Op::Run {
                    p: *p,
                    argv: a,
                    name: name.clone(),
                    comp: *comp,
                    cb: *cb,
                });
            }
        }
        Op::Print {
            p,
            argv,
            name,
            width,
        } => {
            if name.is_some() {
                out.push(Op::Print {
                    p: *p,
                    argv: argv.clone(),
                    name: None,
                    width: *width,
                });
            }
            for a in shrink_toks(argv) {
                out.push(Op::Print {
                    p: *p,
                    argv: a,
                    name: name.clone(),
                    width: *width,
                });
            }
        }
        Op::Render { p, what, app, cb } => {
            if cb.is_some() {
                out.push(Op::Render {
                    p: *p,
                    what: *what,
                    app: app.clone(),
                    cb: None,
                });
            }
            if app != "app" {
                out.push(Op::Render {
                    p: *p,
                    what: *what,
                    app: "app".into(),
                    cb: *cb,
                });
            }
        }
        Op::SetEnv { name, val } => {
            if let Some(v) = val {
                if v.len() > 1 {
                    out.push(Op::SetEnv {
                        name: name.clone(),
                        val: Some(v[..1].to_vec()),
                    });
                }
            }
        }
        Op::Launch {
            p,
            argv,
            out_fault,
            err_fault,
            real,
        } => {
            let real = *real;
            if *out_fault != StreamFault::None {
                out.push(Op::Launch {
                    p: *p,
                    argv: argv.clone(),
                    out_fault: StreamFault::None,
                    err_fault: err_fault.clone(),
                    real,
                });
            }
            if *err_fault != StreamFault::None {
                out.push(Op::Launch {
                    p: *p,
                    argv: argv.clone(),
                    out_fault: out_fault.clone(),
                    err_fault: StreamFault::None,
                    real,
                });
            }
            if argv.len() > 1 {
                for a in shrink_toks(&argv[1..]) {
                    let mut full = vec![argv[0].clone()];
                    full.extend(a);
                    out.push(Op::Launch {
                        p: *p,
                        argv: full,
                        out_fault: out_fault.clone(),
                        err_fault: err_fault.clone(),
                    real,
                    });
                }
            }
            if !argv.is_empty() && argv[0] != b"app" {
                let mut full = argv.clone();
                full[0] = b"app".to_vec();
                out.push(Op::Launch {
                    p: *p,
                    argv: full,
                    out_fault: out_fault.clone(),
                    err_fault: err_fault.clone(),
                    real,
                });
            }
        }
        _ => {}
    }
    out
}

fn shrink_named(n: &Named) -> Vec<Named> {
    let mut out = Vec::new();
    if n.help.is_some() {
        let mut x = n.clone();
        x.help = None;
        out.push(x);
    }
    if n.shorts.len() + n.longs.len() > 1 || (!n.envs.is_empty() && n.shorts.len() + n.longs.len() > 0) {
        for i in 0..n.shorts.len() {
            let mut x = n.clone();
            x.shorts.remove(i);
            out.push(x);
        }
        for i in 0..n.longs.len() {
            let mut x = n.clone();
            x.longs.remove(i);
            out.push(x);
        }
    }
    if n.shorts.len() + n.longs.len() > 0 || n.envs.len() > 1 {
        for i in 0..n.envs.len() {
            let mut x = n.clone();
            x.envs.remove(i);
            out.push(x);
        }
    }
    out
}

pub fn shrink_shape(s: &Shape) -> Vec<Shape> {
    let mut out = Vec::new();
    match s {
        Shape::Switch(n) => out.extend(shrink_named(n).into_iter().map(Shape::Switch)),
        Shape::Flag(n, a, b) => {
            out.extend(shrink_named(n).into_iter().map(|x| Shape::Flag(x, *a, *b)))
        }
        Shape::ReqFlag(n, a) => out.extend(shrink_named(n).into_iter().map(|x| Shape::ReqFlag(x, *a))),
        Shape::Arg {
            named,
            metavar,
            ty,
            adjacent,
        } => {
            if *adjacent {
                out.push(Shape::Arg {
                    named: named.clone(),
                    metavar,
                    ty: *ty,
                    adjacent: false,
                });
            }
            out.extend(shrink_named(named).into_iter().map(|x| Shape::Arg {
                named: x,
                metavar,
                ty: *ty,
                adjacent: *adjacent,
            }));
        }
        Shape::Pos {
            metavar,
            ty,
            strict,
            help,
        } => {
            if help.is_some() {
                out.push(Shape::Pos {
                    metavar,
                    ty: *ty,
                    strict: *strict,
                    help: None,
                });
            }
            if *strict != 0 {
                out.push(Shape::Pos {
                    metavar,
                    ty: *ty,
                    strict: 0,
                    help: *help,
                });
            }
        }
        Shape::Any {
            metavar,
            anywhere,
            pred,
            help,
        } => {
            if help.is_some() {
                out.push(Shape::Any {
                    metavar,
                    anywhere: *anywhere,
                    pred: *pred,
                    help: None,
                });
            }
        }
        Shape::Literal { .. }
        | Shape::Pure(_)
        | Shape::PureWith(_)
        | Shape::Fail(_)
        | Shape::Battery(_) => {}
        Shape::Cmd {
            name,
            shorts,
            longs,
            help,
            adjacent,
            opts,
        } => {
            if !shorts.is_empty() || !longs.is_empty() || help.is_some() || *adjacent {
                out.push(Shape::Cmd {
                    name,
                    shorts: vec![],
                    longs: vec![],
                    help: None,
                    adjacent: false,
                    opts: opts.clone(),
                });
            }
            for o in shrink_opts(opts) {
                out.push(Shape::Cmd {
                    name,
                    shorts: shorts.clone(),
                    longs: longs.clone(),
                    help: *help,
                    adjacent: *adjacent,
                    opts: Box::new(o),
                });
            }
        }
        Shape::Wrap(w, inner) => {
            out.push((**inner).clone());
            for i in shrink_shape(inner) {
                out.push(Shape::Wrap(w.clone(), Box::new(i)));
            }
        }
        Shape::Seq(fields, adj) => {
            if fields.len() == 1 {
                out.push(fields[0].clone());
            }
            for i in 0..fields.len() {
                let mut x = fields.clone();
                x.remove(i);
                out.push(Shape::Seq(x, *adj && fields.len() > 2));
            }
            if *adj {
                out.push(Shape::Seq(fields.clone(), false));
            }
            for i in 0..fields.len() {
                for f in shrink_shape(&fields[i]) {
                    let mut x = fields.clone();
                    x[i] = f;
                    out.push(Shape::Seq(x, *adj));
                }
            }
        }
        Shape::Alt(alts) => {
            for a in alts {
                out.push(a.clone());
            }
            if alts.len() > 2 {
                for i in 0..alts.len() {
                    let mut x = alts.clone();
                    x.remove(i);
                    out.push(Shape::Alt(x));
                }
            }
            for i in 0..alts.len() {
                for f in shrink_shape(&alts[i]) {
                    let mut x = alts.clone();
                    x[i] = f;
                    out.push(Shape::Alt(x));
                }
            }
        }
    }
    out
}

pub fn shrink_opts(o: &Opts) -> Vec<Opts> {
    let mut out = Vec::new();
    let plain = Opts::plain(o.root.clone());
    if *o != plain {
        out.push(plain);
    }
    macro_rules! clear {
        ($f:ident, $v:expr) => {
            if o.$f != $v {
                let mut x = o.clone();
                x.$f = $v;
                out.push(x);
            }
        };
    }
    clear!(descr, None);
    clear!(header, None);
    clear!(footer, None);
    clear!(version, None);
    clear!(usage, None);
    clear!(with_usage, false);
    clear!(help_names, None);
    clear!(version_names, None);
    clear!(fallback_to_usage, false);
    clear!(cargo, None);
    clear!(max_width, None);
    for r in shrink_shape(&o.root) {
        let mut x = o.clone();
        x.root = r;
        out.push(x);
    }
    out
}
