//! The simulated process world: environment store, argument vector, two output streams with a
//! fault plan, intercepted exit, step budget and the callback fault plan.
//!
//! One `Sim` lives in a thread-local of the (single-threaded) worker; a zero-sized delegate is
//! installed into bpaf's `__verif` seam once per process.
use std::cell::RefCell;
use std::collections::BTreeMap;
use std::ffi::{OsStr, OsString};
use std::os::unix::ffi::{OsStrExt, OsStringExt};

#[derive(Clone, Debug, PartialEq, Eq)]
pub enum StreamFault {
    None,
    /// the descriptor accepts `at` more bytes, then every write fails with this errno text
    ErrAt { at: usize, errno: &'static str },
    /// EBADF: std treats it as success and drops the data
    Closed,
    /// not a fault: the descriptor is a terminal (a pty in the real tier); bytes arrive as usual
    Tty,
}

#[derive(Clone, Debug)]
pub struct Stream {
    /// bytes that reached the descriptor
    pub delivered: Vec<u8>,
    /// std's LineWriter tail (fd 1 only)
    pub buffer: Vec<u8>,
    pub fault: StreamFault,
    /// how many write calls failed
    pub fired: u32,
    /// bytes handed to the print macros, whether or not they were delivered
    pub offered: Vec<u8>,
}

impl Stream {
    fn new() -> Self {
        Stream {
            delivered: Vec::new(),
            buffer: Vec::new(),
            fault: StreamFault::None,
            fired: 0,
            offered: Vec::new(),
        }
    }

    /// raw write(2) on the descriptor
    fn raw_write(&mut self, bytes: &[u8]) -> Result<(), String> {
        if bytes.is_empty() {
            return Ok(());
        }
        match self.fault.clone() {
            StreamFault::None | StreamFault::Tty => {
                self.delivered.extend_from_slice(bytes);
                Ok(())
            }
            StreamFault::Closed => {
                self.fired += 1;
                Ok(())
            }
            StreamFault::ErrAt { at, errno } => {
                let room = at.saturating_sub(self.delivered.len());
                if bytes.len() <= room {
                    self.delivered.extend_from_slice(bytes);
                    Ok(())
                } else {
                    self.delivered.extend_from_slice(&bytes[..room]);
                    self.fired += 1;
                    Err(errno.to_string())
                }
            }
        }
    }
}

#[derive(Clone, Copy, Debug, PartialEq, Eq)]
pub enum CbFault {
    /// the callback reports failure (Err / false / None)
    Fail,
    /// the callback panics; payload is `InjectedPanic`
    Panic,
}

/// payload of an injected callback panic
#[derive(Debug, Clone, Copy, PartialEq, Eq)]
pub struct InjectedPanic(pub u32);

#[derive(Clone, Debug, Default)]
pub struct CbPlan {
    pub enabled: bool,
    pub calls: u32,
    /// fault at the k-th call (1-based) while enabled
    pub fault: Option<(u32, CbFault)>,
    pub fired_fail: u32,
    pub fired_panic: u32,
}

pub struct Sim {
    pub env: BTreeMap<Vec<u8>, Vec<u8>>,
    /// every `var_os` call: (name, was it set)
    pub env_reads: Vec<(Vec<u8>, bool)>,
    /// `argv` including `argv[0]`; may be empty
    pub argv: Vec<Vec<u8>>,
    pub args_reads: u32,
    pub out: Stream,
    pub err: Stream,
    pub exit: Option<i32>,
    pub ticks: u64,
    pub budget: u64,
    pub cb: CbPlan,
    /// drop print-macro output unformatted (while validating generated definitions)
    pub mute: bool,
    /// `Bell` values ring only inside a simulated process launch (C11)
    pub bells: bool,
}

impl Sim {
    pub fn new() -> Self {
        Sim {
            env: BTreeMap::new(),
            env_reads: Vec::new(),
            argv: Vec::new(),
            args_reads: 0,
            out: Stream::new(),
            err: Stream::new(),
            exit: None,
            ticks: 0,
            budget: u64::MAX,
            cb: CbPlan::default(),
            mute: false,
            bells: false,
        }
    }

    /// forget everything observed, keep env/argv/fault configuration
    pub fn reset_observations(&mut self) {
        self.env_reads.clear();
        self.args_reads = 0;
        let (f1, f2) = (self.out.fault.clone(), self.err.fault.clone());
        self.out = Stream::new();
        self.err = Stream::new();
        self.out.fault = f1;
        self.err.fault = f2;
        self.exit = None;
        self.ticks = 0;
        self.cb.calls = 0;
        self.cb.fired_fail = 0;
        self.cb.fired_panic = 0;
    }

    /// what std does when the process ends: flush the stdout tail, ignore errors
    pub fn process_end(&mut self) {
        let tail = std::mem::take(&mut self.out.buffer);
        let _ = self.out.raw_write(&tail);
    }
}

thread_local! {
    pub static SIM: RefCell<Sim> = RefCell::new(Sim::new());
}

pub fn with<R>(f: impl FnOnce(&mut Sim) -> R) -> R {
    SIM.with(|s| f(&mut s.borrow_mut()))
}

struct Delegate;

impl bpaf::__verif::World for Delegate {
    fn var_os(&mut self, key: &OsStr) -> Option<OsString> {
        with(|s| {
            let k = key.as_bytes().to_vec();
            let v = s.env.get(&k).cloned();
            s.env_reads.push((k, v.is_some()));
            v.map(OsString::from_vec)
        })
    }

    fn vars_os(&mut self) -> Vec<(OsString, OsString)> {
        with(|s| {
            // enumerating the environment reads every variable, declared or not
            s.env_reads.push((b"*".to_vec(), true));
            s.env
                .iter()
                .map(|(k, v)| (OsString::from_vec(k.clone()), OsString::from_vec(v.clone())))
                .collect()
        })
    }

    fn args_os(&mut self) -> Vec<OsString> {
        with(|s| {
            s.args_reads += 1;
            s.argv.iter().cloned().map(OsString::from_vec).collect()
        })
    }

    fn write(&mut self, fd: i32, bytes: &[u8]) -> Result<(), String> {
        with(|s| {
            if fd == 1 {
                // std: LineWriter - everything up to the last newline goes to the descriptor
                // (after whatever is already buffered), the tail stays buffered
                s.out.offered.extend_from_slice(bytes);
                match bytes.iter().rposition(|b| *b == b'\n') {
                    None => {
                        s.out.buffer.extend_from_slice(bytes);
                        Ok(())
                    }
                    Some(ix) => {
                        let mut head = std::mem::take(&mut s.out.buffer);
                        head.extend_from_slice(&bytes[..=ix]);
                        let r = s.out.raw_write(&head);
                        if r.is_ok() {
                            s.out.buffer.extend_from_slice(&bytes[ix + 1..]);
                        }
                        r
                    }
                }
            } else {
                s.err.offered.extend_from_slice(bytes);
                s.err.raw_write(bytes)
            }
        })
    }

    fn flush(&mut self, fd: i32) -> Result<(), String> {
        with(|s| {
            if fd == 1 && !s.out.buffer.is_empty() {
                let head = std::mem::take(&mut s.out.buffer);
                s.out.raw_write(&head)
            } else {
                Ok(())
            }
        })
    }

    fn exit(&mut self, code: i32) {
        with(|s| {
            s.exit = Some(code);
        })
    }

    fn tick(&mut self) -> bool {
        with(|s| {
            s.ticks += 1;
            s.ticks > s.budget
        })
    }

    fn mute(&mut self) -> bool {
        with(|s| s.mute)
    }
}

pub fn install() {
    bpaf::__verif::install(Box::new(Delegate));
}

/// `std::process::exit` as called by harness code that plays the program's `main`: recorded,
/// then an unwind - like the shadowed exit inside bpaf
pub fn exit(code: i32) -> ! {
    with(|s| s.exit = Some(code));
    std::panic::resume_unwind(Box::new(bpaf::__verif::SimExit(code)))
}

/// what a user value's destructor prints: goes to the simulated stdout like any `println!`, but
/// only during a launch and only while the simulated process is alive (a real process that
/// calls `exit` runs no destructors; the simulated exit is an unwind, which does)
pub fn noise(text: &str) {
    let live = with(|s| s.bells && s.exit.is_none());
    if live {
        use bpaf::__verif::World;
        let _ = Delegate.write(1, text.as_bytes());
    }
}

/// Called by every harness callback: counts the call and applies the fault plan.
/// Returns `true` when the callback must report failure.
pub fn cb_enter() -> bool {
    let action = with(|s| {
        if !s.cb.enabled {
            return None;
        }
        s.cb.calls += 1;
        match s.cb.fault {
            Some((k, f)) if k == s.cb.calls => {
                match f {
                    CbFault::Fail => s.cb.fired_fail += 1,
                    CbFault::Panic => s.cb.fired_panic += 1,
                }
                Some((k, f))
            }
            _ => None,
        }
    });
    match action {
        None => false,
        Some((_, CbFault::Fail)) => true,
        Some((k, CbFault::Panic)) => std::panic::resume_unwind(Box::new(InjectedPanic(k))),
    }
}

// ---------------------------------------------------------------------------------------------
// canaries in the worker's real environment
//
// The seam is only as good as its coverage: code that reads the real process environment
// directly would escape the simulated store. Every name the generators know is therefore also
// present in the real environment of the (single-threaded) worker with a value that differs
// from anything the simulation holds, and the "scramble undeclared variables" step flips the
// real variables together with the simulated ones. A read that bypasses the seam then shows up
// as an outcome that depends on an undeclared variable or disagrees with the simulated state.

pub fn real_env_init(names: &[&str]) {
    let present: Vec<std::ffi::OsString> = std::env::vars_os().map(|(k, _)| k).collect();
    for k in present {
        std::env::remove_var(k);
    }
    for n in names {
        std::env::set_var(n, "7");
    }
}

/// flip the worker's current directory between two places that exist everywhere; like the
/// environment canaries this makes a dependence on ambient process state observable
pub fn cwd_flip() {
    let here = std::env::current_dir().ok();
    let target = if here.as_deref() == Some(std::path::Path::new("/")) {
        "/tmp"
    } else {
        "/"
    };
    let _ = std::env::set_current_dir(target);
}

/// flip the real variables: set ones are removed, unset ones appear
pub fn real_env_flip(names: &[&str]) {
    for n in names {
        if std::env::var_os(n).is_some() {
            std::env::remove_var(n);
        } else {
            std::env::set_var(n, "13");
        }
    }
}
