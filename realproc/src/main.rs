//! Child executable for C11 tier B: the shipped bpaf (no bpaf_verif cfg) in a real process.
//! The definition arrives on stdin (neither argv nor the environment, both are under test);
//! `OptionParser::run()` does whatever it does with the real argv, streams and exit; if it
//! returns, the "program body" records the value in the marker file and exits with status 7.
#[path = "../../sim/src/json.rs"]
#[allow(dead_code)]
mod json;
#[path = "../../sim/src/shape.rs"]
#[allow(dead_code)]
mod shape;
#[path = "../../sim/src/val.rs"]
#[allow(dead_code)]
mod val;
mod world {
    /// callbacks never misbehave in a real child
    pub fn cb_enter() -> bool {
        false
    }
    pub fn exit(code: i32) -> ! {
        std::process::exit(code)
    }
    /// a user value's destructor prints to the real stdout
    pub fn noise(text: &str) {
        use std::io::Write;
        let _ = std::io::stdout().write_all(text.as_bytes());
    }
}

use std::io::Read;

fn main() {
    let mut input = String::new();
    if std::io::stdin().read_to_string(&mut input).is_err() {
        std::process::exit(90);
    }
    let j = match json::parse(&input) {
        Ok(j) => j,
        Err(_) => std::process::exit(91),
    };
    let opts = match j.req("opts").and_then(shape::Opts::from_j) {
        Ok(o) => o,
        Err(_) => std::process::exit(92),
    };
    let marker = match j.req("marker").and_then(|m| m.as_str().map(|s| s.to_string())) {
        Ok(m) => m,
        Err(_) => std::process::exit(93),
    };
    let rest: Vec<Vec<u8>> = std::env::args_os()
        .skip(1)
        .map(|a| std::os::unix::ffi::OsStringExt::into_vec(a))
        .collect();
    let entry = shape::entry_for(&opts, &rest);
    let v = shape::run_via(&opts, entry);
    let _ = std::fs::write(&marker, format!("{:?}", v));
    std::process::exit(7);
}
